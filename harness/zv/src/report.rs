//! E13/E14: violation records, replay files, known findings, evidence files, exit codes.

use serde::{Deserialize, Serialize};
use serde_json::{json, Value};
use std::collections::{BTreeMap, BTreeSet};
use std::time::Instant;

pub const VERIF_ROOT: &str = "/verif";

#[derive(Clone, Debug, Serialize, Deserialize)]
pub struct Violation {
    pub property: String,
    pub clause: String,
    pub scope: String,
    pub depth: u32,
    /// local features of the member / operation / call involved (the vocabulary of known findings)
    pub context: BTreeMap<String, String>,
    pub expected: String,
    pub actual: String,
    /// everything needed to re-execute the single case (interpreted by `zv replay`)
    pub case: Value,
}

impl Violation {
    pub fn new(property: &str, clause: &str, scope: &str) -> Violation {
        Violation {
            property: property.into(),
            clause: clause.into(),
            scope: scope.into(),
            depth: 0,
            context: BTreeMap::new(),
            expected: String::new(),
            actual: String::new(),
            case: Value::Null,
        }
    }
    pub fn ctx(mut self, k: &str, v: impl ToString) -> Self {
        self.context.insert(k.to_string(), v.to_string());
        self
    }
    pub fn exp(mut self, e: impl ToString) -> Self {
        self.expected = e.to_string();
        self
    }
    pub fn act(mut self, a: impl ToString) -> Self {
        self.actual = a.to_string();
        self
    }
    pub fn depth(mut self, d: u32) -> Self {
        self.depth = d;
        self
    }
    pub fn case(mut self, c: Value) -> Self {
        self.case = c;
        self
    }
    pub fn hash(&self) -> String {
        let s = serde_json::to_string(&json!({"p": self.property, "c": self.clause, "s": self.scope,
            "x": self.context, "e": self.expected, "a": self.actual, "case": self.case}))
        .unwrap();
        format!("{:016x}", fnv1a(s.as_bytes()))
    }
}

pub fn fnv1a(b: &[u8]) -> u64 {
    let mut h: u64 = 0xcbf29ce484222325;
    for x in b {
        h ^= *x as u64;
        h = h.wrapping_mul(0x100000001b3);
    }
    h
}

pub fn hash128(b: &[u8]) -> String {
    let a = fnv1a(b);
    let mut h: u64 = 0x9e3779b97f4a7c15;
    for x in b.iter().rev() {
        h = (h ^ (*x as u64)).wrapping_mul(0xff51afd7ed558ccd).rotate_left(23);
    }
    format!("{a:016x}{h:016x}")
}

#[derive(Clone, Debug, Serialize, Deserialize)]
pub struct KnownEntry {
    pub id: String,
    pub property: String,
    pub status: String, // "open" | "fixed"
    #[serde(default)]
    pub clause: String,
    #[serde(default)]
    pub signature: BTreeMap<String, String>,
    pub description: String,
    #[serde(default)]
    pub witness: Value,
    #[serde(default)]
    pub commit: Option<String>,
}

pub fn load_known() -> Vec<KnownEntry> {
    let p = format!("{VERIF_ROOT}/known_findings.json");
    match std::fs::read_to_string(&p) {
        Ok(s) => {
            let v: Value = serde_json::from_str(&s).unwrap_or_else(|e| machinery(&format!("known_findings.json: {e}")));
            let arr = v.get("findings").cloned().unwrap_or(Value::Array(vec![]));
            serde_json::from_value(arr).unwrap_or_else(|e| machinery(&format!("known_findings.json: {e}")))
        }
        Err(_) => vec![],
    }
}

/// Machinery failure: exit code 2, never a verdict.
pub fn machinery(msg: &str) -> ! {
    eprintln!("MACHINERY-ERROR: {msg}");
    std::process::exit(2);
}

pub struct Report {
    pub property: String,
    pub tier: String,
    pub seed: i64,
    pub level: String,
    pub t0: Instant,
    pub violations: Vec<Violation>,
    pub coverage: BTreeMap<String, Value>,
    pub assumptions: Vec<String>,
    pub samples: Vec<Value>,
    pub counters: BTreeMap<String, u64>,
    pub outcomes: BTreeMap<String, BTreeSet<String>>,
    known: Vec<KnownEntry>,
}

impl Report {
    pub fn new(property: &str, tier: &str, level: &str) -> Report {
        let seed = std::env::var("VERIF_SEED").ok().and_then(|s| s.parse().ok()).unwrap_or(0);
        Report {
            property: property.into(),
            tier: tier.into(),
            seed,
            level: level.into(),
            t0: Instant::now(),
            violations: vec![],
            coverage: BTreeMap::new(),
            assumptions: vec![],
            samples: vec![],
            counters: BTreeMap::new(),
            outcomes: BTreeMap::new(),
            known: load_known(),
        }
    }

    pub fn violation(&mut self, v: Violation) {
        self.violations.push(v);
    }

    pub fn is_known(&self, v: &Violation) -> Option<&KnownEntry> {
        self.known.iter().find(|k| {
            k.status == "open"
                && k.property == v.property
                && k.clause == v.clause
                && k.signature.iter().all(|(sk, sv)| v.context.get(sk).map(|x| x == sv).unwrap_or(false))
        })
    }

    /// number of violations that are not listed as open known findings
    pub fn unlisted(&self) -> usize {
        self.violations.iter().filter(|v| self.is_known(v).is_none()).count()
    }

    pub fn count(&mut self, key: &str, n: u64) {
        *self.counters.entry(key.to_string()).or_insert(0) += n;
    }

    pub fn outcome(&mut self, kind: &str, value: impl ToString) {
        let set = self.outcomes.entry(kind.to_string()).or_default();
        if set.len() < 5000 {
            set.insert(value.to_string());
        }
    }

    pub fn sample(&mut self, v: Value) {
        // keep a bounded, deterministic selection: first 2 plus every 2^k-th
        let n = self.counters.entry("_samples_seen".into()).or_insert(0);
        *n += 1;
        let k = *n;
        if self.samples.len() < 2 || (k.is_power_of_two() && self.samples.len() < 12) {
            self.samples.push(v);
        }
    }

    pub fn set(&mut self, key: &str, v: Value) {
        self.coverage.insert(key.to_string(), v);
    }

    pub fn assume(&mut self, s: &str) {
        self.assumptions.push(s.to_string());
    }

    /// Writes replay files and the evidence file, prints the interface lines, returns exit code.
    pub fn finish(mut self) -> i32 {
        let mut unlisted: Vec<&Violation> = vec![];
        let mut known_hits: BTreeMap<String, (String, u64)> = BTreeMap::new();
        for v in &self.violations {
            match self.is_known(v) {
                Some(k) => {
                    let e = known_hits.entry(k.id.clone()).or_insert((k.description.clone(), 0));
                    e.1 += 1;
                }
                None => unlisted.push(v),
            }
        }
        for (id, (desc, n)) in &known_hits {
            println!("KNOWN-FINDING: property={} {} ({} occurrence(s)): {}", self.property, id, n, desc);
        }
        let dir = format!("{VERIF_ROOT}/replays/{}", self.property);
        let mut printed = 0;
        let mut seen_sig: BTreeSet<String> = BTreeSet::new();
        for v in &unlisted {
            // one line per distinct (clause, context) signature, at most 25 lines
            let sig = format!("{}|{:?}", v.clause, v.context);
            if !seen_sig.insert(sig) {
                continue;
            }
            if printed >= 25 {
                continue;
            }
            let _ = std::fs::create_dir_all(&dir);
            let path = format!("{dir}/{}.json", v.hash());
            let body = serde_json::to_string_pretty(v).unwrap();
            if let Err(e) = std::fs::write(&path, body) {
                machinery(&format!("cannot write replay {path}: {e}"));
            }
            println!(
                "VIOLATION property={} replay={} clause={} expected={:?} actual={:?} context={:?}",
                self.property,
                path,
                v.clause,
                trunc(&v.expected, 160),
                trunc(&v.actual, 160),
                v.context
            );
            printed += 1;
        }
        let n_unlisted = unlisted.len();
        // evidence
        let wall = self.t0.elapsed().as_secs_f64();
        let mut cov = serde_json::Map::new();
        for (k, v) in &self.coverage {
            cov.insert(k.clone(), v.clone());
        }
        self.counters.remove("_samples_seen");
        if !self.counters.is_empty() {
            cov.insert("counters".into(), json!(self.counters));
        }
        if !self.outcomes.is_empty() {
            let mut o = serde_json::Map::new();
            for (k, set) in &self.outcomes {
                let ex: Vec<&String> = set.iter().take(8).collect();
                o.insert(k.clone(), json!({"distinct": set.len(), "examples": ex}));
            }
            cov.insert("distinct_outcomes".into(), Value::Object(o));
        }
        if self.samples.is_empty() {
            self.samples.push(json!("no sample recorded"));
        }
        cov.insert("samples".into(), Value::Array(self.samples.clone()));
        cov.insert(
            "known_findings_matched".into(),
            json!(known_hits.iter().map(|(k, (_, n))| (k.clone(), *n)).collect::<BTreeMap<_, _>>()),
        );
        let ev = json!({
            "property_id": self.property,
            "tier": self.tier,
            "seed": self.seed,
            "level": self.level,
            "coverage": Value::Object(cov),
            "assumptions": self.assumptions,
            "wall_s": (wall * 1000.0).round() / 1000.0,
            "violations": n_unlisted as i64,
        });
        let _ = std::fs::create_dir_all(format!("{VERIF_ROOT}/evidence"));
        let path = format!("{VERIF_ROOT}/evidence/{}.json", self.property);
        if let Err(e) = std::fs::write(&path, serde_json::to_string_pretty(&ev).unwrap() + "\n") {
            machinery(&format!("cannot write evidence {path}: {e}"));
        }
        println!(
            "{} {}: {} violation(s) unlisted, {} known-finding entr(ies) matched, wall {:.1}s, evidence {}",
            self.property,
            self.tier,
            n_unlisted,
            known_hits.len(),
            wall,
            path
        );
        if n_unlisted > 0 {
            1
        } else {
            0
        }
    }
}

pub fn trunc(s: &str, n: usize) -> String {
    if s.chars().count() <= n {
        s.to_string()
    } else {
        let t: String = s.chars().take(n).collect();
        format!("{t}…")
    }
}
