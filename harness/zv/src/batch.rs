//! E6: compile-and-run stage. Emitted files (unmodified) become `#[path]` modules of scratch cargo
//! packages whose only dependencies are the six documented crates; a generated driver per case
//! exercises them; rustc diagnostics are attributed to cases by file, failing cases are reported
//! and removed, the rest is rebuilt once and run under supervision.

use crate::report::{hash128, machinery};
use rayon::prelude::*;
use serde_json::Value;
use std::collections::{BTreeMap, BTreeSet};
use std::io::{BufRead, BufReader};
use std::path::{Path, PathBuf};
use std::process::{Command, Stdio};
use std::time::{Duration, Instant};

pub const BATCH_ROOT: &str = "/verif/work/batch";
pub const BATCH_TARGET: &str = "/verif/work/target-batch";
pub const CACHE_DIR: &str = "/verif/work/cache";
pub const TEMPLATES: &str = "/verif/harness/templates";

#[derive(Clone, Debug)]
pub struct BatchCase {
    pub id: String,
    pub emitted: String,
    /// body of the driver module; must define `pub fn run(out: &mut crate::zvp::Out)`; None = compile only
    pub driver: Option<String>,
}

#[derive(Clone, Debug)]
pub struct Diag {
    pub in_driver: bool,
    pub code: String,
    pub message: String,
    pub line: usize,
    pub snippet: String,
}

#[derive(Default, Debug)]
pub struct BatchResult {
    pub compile_errors: BTreeMap<String, Vec<Diag>>,
    /// JSON observations per case, in emission order
    pub lines: BTreeMap<String, Vec<Value>>,
    /// abort / timeout / panic of a whole driver
    pub run_failures: BTreeMap<String, String>,
    pub packages: usize,
    pub cache_hits: usize,
    pub build_secs: f64,
    pub run_secs: f64,
}

fn mod_name(id: &str) -> String {
    let s: String = id.chars().map(|c| if c.is_ascii_alphanumeric() { c } else { '_' }).collect();
    format!("c_{s}")
}

fn manifest(pkg: &str) -> String {
    format!(
        "[package]\nname = \"{pkg}\"\nversion = \"0.0.0\"\nedition = \"2024\"\n\n[dependencies]\nyaserde = \"0.12\"\nyaserde_derive = \"0.12\"\nxml-rs = \"0.8\"\nlog = \"0.4\"\nreqwest = {{ version = \"0.12\", default-features = false, features = [\"rustls-tls\"] }}\ntokio = {{ version = \"1\", features = [\"full\"] }}\n"
    )
}

fn workspace_manifest(members: &[String]) -> String {
    let m: Vec<String> = members.iter().map(|m| format!("\"{m}\"")).collect();
    format!(
        "[workspace]\nmembers = [{}]\nresolver = \"2\"\n\n[profile.dev]\nopt-level = 0\ndebug = false\nincremental = false\ncodegen-units = 16\n\n[profile.dev.package.\"*\"]\nopt-level = 1\n",
        m.join(", ")
    )
}

struct Package {
    name: String,
    cases: Vec<usize>,
}

fn main_rs(cases: &[&BatchCase]) -> String {
    let mut s = String::from("#![allow(warnings)]\n#[path = \"zvp.rs\"]\npub mod zvp;\n");
    for c in cases {
        let m = mod_name(&c.id);
        s.push_str(&format!("#[path = \"case_{m}.rs\"]\npub mod {m};\n"));
        if c.driver.is_some() {
            s.push_str(&format!("#[path = \"drv_{m}.rs\"]\npub mod drv_{m};\n"));
        }
    }
    s.push_str("fn main() {\n    let args: Vec<String> = std::env::args().skip(1).collect();\n    let want = |id: &str| args.is_empty() || args.iter().any(|a| a == id);\n");
    for c in cases {
        if c.driver.is_some() {
            let m = mod_name(&c.id);
            s.push_str(&format!("    if want({:?}) {{ zvp::run_case({:?}, drv_{m}::run); }}\n", c.id, c.id));
        }
    }
    s.push_str("}\n");
    s
}

fn write_package(dir: &Path, pkg: &str, cases: &[&BatchCase]) {
    let src = dir.join("src");
    let _ = std::fs::remove_dir_all(dir);
    std::fs::create_dir_all(&src).unwrap_or_else(|e| machinery(&format!("mkdir {src:?}: {e}")));
    std::fs::write(dir.join("Cargo.toml"), manifest(pkg)).unwrap();
    let prelude = std::fs::read_to_string(format!("{TEMPLATES}/zvp.rs")).unwrap_or_else(|e| machinery(&format!("templates/zvp.rs: {e}")));
    std::fs::write(src.join("zvp.rs"), prelude).unwrap();
    for c in cases {
        let m = mod_name(&c.id);
        std::fs::write(src.join(format!("case_{m}.rs")), &c.emitted).unwrap();
        if let Some(d) = &c.driver {
            let body = format!("#![allow(warnings)]\nuse crate::{m} as zg;\nuse crate::zvp;\n{d}\n");
            std::fs::write(src.join(format!("drv_{m}.rs")), body).unwrap();
        }
    }
    std::fs::write(src.join("main.rs"), main_rs(cases)).unwrap();
}

fn package_hash(cases: &[&BatchCase]) -> String {
    let mut s = String::new();
    for c in cases {
        s.push_str(&c.id);
        s.push('\u{1}');
        s.push_str(&c.emitted);
        s.push('\u{1}');
        s.push_str(c.driver.as_deref().unwrap_or("-"));
        s.push('\u{2}');
    }
    s.push_str(&std::fs::read_to_string(format!("{TEMPLATES}/zvp.rs")).unwrap_or_default());
    s.push_str(&std::fs::read_to_string(format!("{TEMPLATES}/Cargo.lock")).unwrap_or_default());
    s.push_str(&rustc_version());
    hash128(s.as_bytes())
}

fn rustc_version() -> String {
    static V: std::sync::OnceLock<String> = std::sync::OnceLock::new();
    V.get_or_init(|| Command::new("rustc").arg("-V").output().map(|o| String::from_utf8_lossy(&o.stdout).to_string()).unwrap_or_default()).clone()
}

/// builds the workspace; returns (per package: built ok?, diagnostics by (package, file name))
fn cargo_build(ws: &Path, pkgs: &[String]) -> (BTreeSet<String>, Vec<(String, String, Diag)>) {
    let mut cmd = Command::new("cargo");
    cmd.current_dir(ws).arg("build").arg("--offline").arg("--message-format=json").arg("--keep-going").env("CARGO_TARGET_DIR", BATCH_TARGET).env("CARGO_NET_OFFLINE", "true").env("RUSTFLAGS", "-Awarnings");
    for p in pkgs {
        cmd.arg("-p").arg(p);
    }
    cmd.stdout(Stdio::piped()).stderr(Stdio::piped());
    let out = cmd.output().unwrap_or_else(|e| machinery(&format!("cargo build: {e}")));
    let mut ok = BTreeSet::new();
    let mut diags = vec![];
    let mut saw_any = false;
    for line in String::from_utf8_lossy(&out.stdout).lines() {
        let Ok(v) = serde_json::from_str::<Value>(line) else { continue };
        saw_any = true;
        match v["reason"].as_str() {
            Some("compiler-artifact") => {
                if let Some(name) = v["target"]["name"].as_str() {
                    if v["target"]["kind"].as_array().map(|k| k.iter().any(|x| x == "bin")).unwrap_or(false) && v["executable"].is_string() {
                        ok.insert(name.to_string());
                    }
                }
            }
            Some("compiler-message") => {
                let m = &v["message"];
                if m["level"] != "error" {
                    continue;
                }
                let pkg = v["target"]["name"].as_str().unwrap_or("").to_string();
                let span = m["spans"].as_array().and_then(|s| s.iter().find(|x| x["is_primary"] == true).or(s.first())).cloned().unwrap_or(Value::Null);
                let file = span["file_name"].as_str().unwrap_or("").to_string();
                let fname = Path::new(&file).file_name().map(|f| f.to_string_lossy().to_string()).unwrap_or_default();
                let d = Diag {
                    in_driver: fname.starts_with("drv_"),
                    code: m["code"]["code"].as_str().unwrap_or("").to_string(),
                    message: m["message"].as_str().unwrap_or("").to_string(),
                    line: span["line_start"].as_u64().unwrap_or(0) as usize,
                    snippet: span["text"].as_array().and_then(|t| t.first()).and_then(|t| t["text"].as_str()).unwrap_or("").trim().to_string(),
                };
                diags.push((pkg, fname, d));
            }
            _ => {}
        }
    }
    if !saw_any && !out.status.success() {
        machinery(&format!("cargo build produced no JSON: {}", String::from_utf8_lossy(&out.stderr).chars().take(1500).collect::<String>()));
    }
    // a failure outside our sources (dependency resolution, lock file) is a machinery error
    let stderr = String::from_utf8_lossy(&out.stderr);
    if stderr.contains("error: failed to select a version") || stderr.contains("no matching package") || stderr.contains("failed to load manifest") {
        machinery(&format!("cargo build (batch) failed before compiling: {}", stderr.chars().take(1500).collect::<String>()));
    }
    (ok, diags)
}

fn run_binary(bin: &Path, case_ids: &[String], per_case_ms: u64) -> (BTreeMap<String, Vec<Value>>, BTreeMap<String, String>) {
    let mut lines: BTreeMap<String, Vec<Value>> = BTreeMap::new();
    let mut failures: BTreeMap<String, String> = BTreeMap::new();
    let mut remaining: Vec<String> = case_ids.to_vec();
    while !remaining.is_empty() {
        let mut child = Command::new(bin).args(&remaining).stdout(Stdio::piped()).stderr(Stdio::null()).spawn().unwrap_or_else(|e| machinery(&format!("run {bin:?}: {e}")));
        let stdout = child.stdout.take().unwrap();
        let (tx, rx) = std::sync::mpsc::channel::<Option<String>>();
        std::thread::spawn(move || {
            let r = BufReader::new(stdout);
            for l in r.lines() {
                match l {
                    Ok(l) => {
                        if tx.send(Some(l)).is_err() {
                            return;
                        }
                    }
                    Err(_) => break,
                }
            }
            let _ = tx.send(None);
        });
        let mut current: Option<String> = None;
        let mut done: BTreeSet<String> = BTreeSet::new();
        let mut t_case = Instant::now();
        let mut failed: Option<(String, String)> = None;
        loop {
            match rx.recv_timeout(Duration::from_millis(200)) {
                Ok(Some(l)) => {
                    if let Some(id) = l.strip_prefix("BEGIN ") {
                        current = Some(id.to_string());
                        t_case = Instant::now();
                        lines.entry(id.to_string()).or_default();
                    } else if let Some(id) = l.strip_prefix("END ") {
                        done.insert(id.to_string());
                        current = None;
                    } else if let Some(j) = l.strip_prefix("ZV ") {
                        if let (Some(id), Ok(v)) = (&current, serde_json::from_str::<Value>(j)) {
                            lines.entry(id.clone()).or_default().push(v);
                        }
                    }
                }
                Ok(None) => break,
                Err(std::sync::mpsc::RecvTimeoutError::Timeout) => {
                    if let Some(id) = &current {
                        if t_case.elapsed().as_millis() as u64 > per_case_ms {
                            let _ = child.kill();
                            failed = Some((id.clone(), format!("run.timeout: no progress within {per_case_ms} ms")));
                            break;
                        }
                    } else if t_case.elapsed().as_secs() > 60 {
                        let _ = child.kill();
                        break;
                    }
                }
                Err(_) => break,
            }
        }
        let status = child.wait();
        if failed.is_none() {
            if let Some(id) = &current {
                // died in the middle of a case
                let st = status.map(|s| s.to_string()).unwrap_or_default();
                failed = Some((id.clone(), format!("run.abort: process ended inside the case ({st})")));
            }
        }
        match failed {
            Some((id, why)) => {
                failures.insert(id.clone(), why);
                let pos = remaining.iter().position(|x| *x == id).unwrap_or(0);
                remaining = remaining.split_off(pos + 1);
            }
            None => {
                // cases never begun (should not happen) are reported
                for id in &remaining {
                    if !done.contains(id) && !lines.contains_key(id) {
                        failures.insert(id.clone(), "run.abort: case never started".into());
                    }
                }
                break;
            }
        }
    }
    (lines, failures)
}

pub fn no_cache() -> bool {
    std::env::var("VERIF_NO_CACHE").map(|v| v == "1").unwrap_or(false)
}

/// Compile (and run the drivers of) a set of cases. `name` = scratch workspace name.
pub fn run_batch(name: &str, cases: &[BatchCase], per_case_ms: u64) -> BatchResult {
    let mut res = BatchResult::default();
    if cases.is_empty() {
        return res;
    }
    let ws = PathBuf::from(format!("{BATCH_ROOT}/{name}"));
    let _ = std::fs::remove_dir_all(&ws);
    std::fs::create_dir_all(&ws).unwrap_or_else(|e| machinery(&format!("mkdir {ws:?}: {e}")));
    let _ = std::fs::create_dir_all(CACHE_DIR);
    let n_pk = 16.min(cases.len());
    let mut packages: Vec<Package> = (0..n_pk).map(|i| Package { name: format!("zvb_{name}_{i:02}"), cases: vec![] }).collect();
    for (i, _) in cases.iter().enumerate() {
        packages[i % n_pk].cases.push(i);
    }
    res.packages = n_pk;
    // cache lookup per package
    let mut todo: Vec<usize> = vec![];
    let mut hashes: Vec<String> = vec![];
    for (pi, p) in packages.iter().enumerate() {
        let cs: Vec<&BatchCase> = p.cases.iter().map(|i| &cases[*i]).collect();
        let h = package_hash(&cs);
        hashes.push(h.clone());
        let cached = if no_cache() { None } else { std::fs::read_to_string(format!("{CACHE_DIR}/{h}.json")).ok().and_then(|s| serde_json::from_str::<Value>(&s).ok()) };
        match cached {
            Some(v) => {
                res.cache_hits += 1;
                load_cached(&v, &mut res);
            }
            None => todo.push(pi),
        }
    }
    if todo.is_empty() {
        let _ = std::fs::remove_dir_all(&ws);
        return res;
    }
    // write packages
    let lock = std::fs::read_to_string(format!("{TEMPLATES}/Cargo.lock")).unwrap_or_else(|e| machinery(&format!("templates/Cargo.lock: {e}")));
    let t0 = Instant::now();
    let mut alive: BTreeMap<usize, Vec<usize>> = todo.iter().map(|pi| (*pi, packages[*pi].cases.clone())).collect();
    let mut per_pkg_errors: BTreeMap<usize, BTreeMap<String, Vec<Diag>>> = BTreeMap::new();
    let mut built: BTreeSet<String> = BTreeSet::new();
    for round in 0..3 {
        let members: Vec<String> = alive.keys().map(|pi| packages[*pi].name.clone()).collect();
        if members.is_empty() {
            break;
        }
        std::fs::write(ws.join("Cargo.toml"), workspace_manifest(&members)).unwrap();
        std::fs::write(ws.join("Cargo.lock"), &lock).unwrap();
        for (pi, cs) in &alive {
            let cs: Vec<&BatchCase> = cs.iter().map(|i| &cases[*i]).collect();
            write_package(&ws.join(&packages[*pi].name), &packages[*pi].name, &cs);
        }
        let (ok, diags) = cargo_build(&ws, &members);
        built.extend(ok.iter().cloned());
        // attribute diagnostics
        let mut progress = false;
        let mut next_alive: BTreeMap<usize, Vec<usize>> = BTreeMap::new();
        for (pi, cs) in &alive {
            let pname = &packages[*pi].name;
            if ok.contains(pname) {
                continue;
            }
            let mut bad: BTreeSet<usize> = BTreeSet::new();
            let mut unattributed = vec![];
            for (pkg, fname, d) in diags.iter().filter(|(p, _, _)| p == pname) {
                let _ = pkg;
                let hit = cs.iter().find(|i| {
                    let m = mod_name(&cases[**i].id);
                    *fname == format!("case_{m}.rs") || *fname == format!("drv_{m}.rs")
                });
                match hit {
                    Some(i) => {
                        bad.insert(*i);
                        per_pkg_errors.entry(*pi).or_default().entry(cases[*i].id.clone()).or_default().push(d.clone());
                    }
                    None => unattributed.push(format!("{fname}:{} {}", d.line, d.message)),
                }
            }
            if bad.is_empty() {
                if round == 0 && !unattributed.is_empty() {
                    machinery(&format!("batch package {pname} failed with errors outside any case file: {:?}", &unattributed[..unattributed.len().min(5)]));
                }
                if unattributed.is_empty() {
                    machinery(&format!("batch package {pname} did not build and reported no diagnostics"));
                }
            }
            let rest: Vec<usize> = cs.iter().copied().filter(|i| !bad.contains(i)).collect();
            if !rest.is_empty() && !bad.is_empty() {
                next_alive.insert(*pi, rest);
                progress = true;
            }
        }
        alive = next_alive;
        if !progress {
            break;
        }
    }
    res.build_secs = t0.elapsed().as_secs_f64();
    // run
    let t1 = Instant::now();
    let run_jobs: Vec<(usize, PathBuf, Vec<String>)> = todo
        .iter()
        .filter(|pi| built.contains(&packages[**pi].name))
        .map(|pi| {
            let errs = per_pkg_errors.get(pi);
            let ids: Vec<String> = packages[*pi].cases.iter().map(|i| &cases[*i]).filter(|c| c.driver.is_some() && errs.map(|e| !e.contains_key(&c.id)).unwrap_or(true)).map(|c| c.id.clone()).collect();
            (*pi, PathBuf::from(format!("{BATCH_TARGET}/debug/{}", packages[*pi].name)), ids)
        })
        .collect();
    let ran: Vec<(usize, BTreeMap<String, Vec<Value>>, BTreeMap<String, String>)> = run_jobs
        .par_iter()
        .map(|(pi, bin, ids)| {
            if ids.is_empty() {
                return (*pi, BTreeMap::new(), BTreeMap::new());
            }
            let (l, f) = run_binary(bin, ids, per_case_ms);
            (*pi, l, f)
        })
        .collect();
    res.run_secs = t1.elapsed().as_secs_f64();
    for (pi, l, f) in ran {
        // store in cache + result
        let errs = per_pkg_errors.remove(&pi).unwrap_or_default();
        let v = serde_json::json!({
            "errors": errs.iter().map(|(k, ds)| (k.clone(), ds.iter().map(|d| serde_json::json!({"in_driver": d.in_driver, "code": d.code, "message": d.message, "line": d.line, "snippet": d.snippet})).collect::<Vec<_>>())).collect::<BTreeMap<_, _>>(),
            "lines": l,
            "failures": f,
        });
        let _ = std::fs::write(format!("{CACHE_DIR}/{}.json", hashes[pi]), v.to_string());
        load_cached(&v, &mut res);
    }
    // packages that never built and had no attributable error were handled above (machinery)
    for (pi, errs) in per_pkg_errors {
        let v = serde_json::json!({"errors": errs.iter().map(|(k, ds)| (k.clone(), ds.iter().map(|d| serde_json::json!({"in_driver": d.in_driver, "code": d.code, "message": d.message, "line": d.line, "snippet": d.snippet})).collect::<Vec<_>>())).collect::<BTreeMap<_, _>>(), "lines": {}, "failures": {}});
        let _ = pi;
        load_cached(&v, &mut res);
    }
    // remove sources and binaries of this run (the cache keeps results only)
    for p in &packages {
        let _ = std::fs::remove_file(format!("{BATCH_TARGET}/debug/{}", p.name));
    }
    let _ = std::fs::remove_dir_all(&ws);
    res
}

fn load_cached(v: &Value, res: &mut BatchResult) {
    if let Some(o) = v["errors"].as_object() {
        for (k, ds) in o {
            let e = res.compile_errors.entry(k.clone()).or_default();
            for d in ds.as_array().cloned().unwrap_or_default() {
                e.push(Diag {
                    in_driver: d["in_driver"].as_bool().unwrap_or(false),
                    code: d["code"].as_str().unwrap_or("").into(),
                    message: d["message"].as_str().unwrap_or("").into(),
                    line: d["line"].as_u64().unwrap_or(0) as usize,
                    snippet: d["snippet"].as_str().unwrap_or("").into(),
                });
            }
        }
    }
    if let Some(o) = v["lines"].as_object() {
        for (k, ls) in o {
            res.lines.entry(k.clone()).or_default().extend(ls.as_array().cloned().unwrap_or_default());
        }
    }
    if let Some(o) = v["failures"].as_object() {
        for (k, f) in o {
            res.run_failures.insert(k.clone(), f.as_str().unwrap_or("").to_string());
        }
    }
}

/// setup: build the dependencies once (a package with an empty case)
pub fn warm_up() {
    let hello = crate::runner::run_inproc(&crate::seeds::w0().to_case());
    let text = hello.text().unwrap_or("").to_string();
    let r = run_batch("warmup", &[BatchCase { id: "warm".into(), emitted: text, driver: Some("pub fn run(out: &mut zvp::Out) { out.emit(\"warm\", \"ok\"); }".into()) }], 20_000);
    println!("batch warm-up: {} package(s), build {:.1}s, errors: {}", r.packages, r.build_secs, r.compile_errors.len());
}
