//! E1: the `SchemaSet` abstract syntax of the supported subset (DESIGN §2) and its deterministic
//! printer to XSD / WSDL text. Inputs of the explorer are values of this type; the printed file
//! set is the canonical form of a state.

use serde::{Deserialize, Serialize};
use std::fmt::Write as _;

pub const XS: &str = "http://www.w3.org/2001/XMLSchema";
pub const WSDL_NS: &str = "http://schemas.xmlsoap.org/wsdl/";
pub const SOAP_NS: &str = "http://schemas.xmlsoap.org/wsdl/soap/";
pub const SOAPENV: &str = "http://schemas.xmlsoap.org/soap/envelope/";

pub const BUILTINS: [(&str, &str); 27] = [
    ("byte", "i8"),
    ("short", "i16"),
    ("int", "i32"),
    ("integer", "i32"),
    ("negativeInteger", "i32"),
    ("nonNegativeInteger", "i32"),
    ("nonPositiveInteger", "i32"),
    ("positiveInteger", "i32"),
    ("long", "i64"),
    ("unsignedByte", "u8"),
    ("unsignedShort", "u16"),
    ("unsignedInt", "u32"),
    ("unsignedLong", "u64"),
    ("float", "f32"),
    ("double", "f64"),
    ("decimal", "f64"),
    ("boolean", "bool"),
    ("string", "String"),
    ("normalizedString", "String"),
    ("base64Binary", "String"),
    ("hexBinary", "String"),
    ("anyURI", "String"),
    ("date", "String"),
    ("dateTime", "String"),
    ("time", "String"),
    ("language", "String"),
    ("duration", "String"),
];

pub fn builtin_rust(name: &str) -> Option<&'static str> {
    BUILTINS.iter().find(|(n, _)| *n == name).map(|(_, r)| *r)
}

#[derive(Clone, Debug, Serialize, Deserialize, PartialEq, Eq, Hash, PartialOrd, Ord)]
pub struct QName {
    pub ns: String,
    pub local: String,
    /// when several prefixes are bound to `ns` in scope, use this one
    #[serde(default)]
    pub prefer: Option<String>,
}

impl QName {
    pub fn new(ns: &str, local: &str) -> QName {
        QName { ns: ns.into(), local: local.into(), prefer: None }
    }
}

#[derive(Clone, Debug, Serialize, Deserialize, PartialEq, Eq, Hash)]
pub enum TypeRef {
    Builtin(String),
    Named(QName),
}

impl TypeRef {
    pub fn b(n: &str) -> TypeRef {
        TypeRef::Builtin(n.into())
    }
    pub fn n(ns: &str, local: &str) -> TypeRef {
        TypeRef::Named(QName::new(ns, local))
    }
}

#[derive(Clone, Copy, Debug, Serialize, Deserialize, PartialEq, Eq, Hash)]
pub enum Max {
    N(u32),
    Unbounded,
}

impl Max {
    pub fn repeats(&self) -> bool {
        match self {
            Max::N(n) => *n > 1,
            Max::Unbounded => true,
        }
    }
    pub fn label(&self) -> String {
        match self {
            Max::N(n) => n.to_string(),
            Max::Unbounded => "unbounded".into(),
        }
    }
}

#[derive(Clone, Debug, Serialize, Deserialize, PartialEq, Eq, Hash)]
pub struct Elem {
    pub name: String,
    pub ty: TypeRef,
    pub min: u32,
    pub max: Max,
    /// print minOccurs/maxOccurs even when they have their default value 1
    #[serde(default)]
    pub explicit: bool,
    /// prefix declarations on the local element itself (the .NET/WCF style
    /// `<xs:element name="x" type="q1:T" xmlns:q1="…"/>`)
    #[serde(default)]
    pub xmlns: Vec<(String, String)>,
}

impl Elem {
    pub fn new(name: &str, ty: TypeRef) -> Elem {
        Elem { name: name.into(), ty, min: 1, max: Max::N(1), explicit: false, xmlns: vec![] }
    }
    pub fn occ(mut self, min: u32, max: Max) -> Elem {
        self.min = min;
        self.max = max;
        self
    }
}

#[derive(Clone, Debug, Serialize, Deserialize, PartialEq, Eq, Hash)]
pub struct ElemRef {
    pub target: QName,
    pub min: u32,
    pub max: Max,
    /// prefix declarations on the referring element itself
    #[serde(default)]
    pub xmlns: Vec<(String, String)>,
}

#[derive(Clone, Debug, Serialize, Deserialize, PartialEq, Eq, Hash)]
pub enum Particle {
    Elem(Elem),
    Ref(ElemRef),
    Seq(Seq),
    Choice(Vec<Particle>),
}

#[derive(Clone, Debug, Serialize, Deserialize, PartialEq, Eq, Hash)]
pub struct Seq {
    pub min: u32,
    pub max: Max,
    pub items: Vec<Particle>,
    /// an <xs:annotation> as the first child of the <xs:sequence> (and, for a derived type, another
    /// one as the first child of <xs:extension>)
    #[serde(default)]
    pub doc: Option<String>,
}

impl Seq {
    pub fn of(items: Vec<Particle>) -> Seq {
        Seq { min: 1, max: Max::N(1), items, doc: None }
    }
}

#[derive(Clone, Debug, Serialize, Deserialize, PartialEq, Eq, Hash)]
pub struct Attr {
    pub name: String,
    pub ty: TypeRef,
    pub required: bool,
    /// default="..." (false) or fixed="..." (true) value constraint
    #[serde(default)]
    pub value_constraint: Option<(bool, String)>,
}

#[derive(Clone, Debug, Serialize, Deserialize, PartialEq, Eq, Hash, Default)]
pub struct ComplexType {
    pub name: String,
    pub doc: Option<String>,
    /// nested prefix declarations on this component: (prefix, uri)
    pub xmlns: Vec<(String, String)>,
    pub base: Option<QName>,
    pub seq: Option<Seq>,
    pub attrs: Vec<Attr>,
}

#[derive(Clone, Debug, Serialize, Deserialize, PartialEq, Eq, Hash)]
pub struct Facet {
    pub kind: String,
    pub value: String,
}

#[derive(Clone, Debug, Serialize, Deserialize, PartialEq, Eq, Hash)]
pub struct SimpleType {
    pub name: String,
    pub doc: Option<String>,
    pub xmlns: Vec<(String, String)>,
    pub base: TypeRef,
    pub facets: Vec<Facet>,
    /// print the non-enumeration facets as attributes of <restriction> (zeep reads both forms)
    pub facets_as_attrs: bool,
}

#[derive(Clone, Debug, Serialize, Deserialize, PartialEq, Eq, Hash)]
pub enum GlobalKind {
    Typed(TypeRef),
    Anonymous { seq: Option<Seq>, attrs: Vec<Attr> },
}

#[derive(Clone, Debug, Serialize, Deserialize, PartialEq, Eq, Hash)]
pub struct GlobalElement {
    pub name: String,
    pub doc: Option<String>,
    pub xmlns: Vec<(String, String)>,
    pub kind: GlobalKind,
}

#[derive(Clone, Debug, Serialize, Deserialize, PartialEq, Eq, Hash)]
pub enum Comp {
    Complex(ComplexType),
    Simple(SimpleType),
    Element(GlobalElement),
}

impl Comp {
    pub fn name(&self) -> &str {
        match self {
            Comp::Complex(c) => &c.name,
            Comp::Simple(s) => &s.name,
            Comp::Element(e) => &e.name,
        }
    }
    pub fn set_name(&mut self, n: &str) {
        match self {
            Comp::Complex(c) => c.name = n.into(),
            Comp::Simple(s) => s.name = n.into(),
            Comp::Element(e) => e.name = n.into(),
        }
    }
}

#[derive(Clone, Debug, Serialize, Deserialize, PartialEq, Eq, Hash)]
pub struct Import {
    pub ns: String,
    pub loc: Option<String>,
}

#[derive(Clone, Debug, Serialize, Deserialize, PartialEq, Eq, Hash, Default)]
pub struct XsdFile {
    pub name: String,
    pub tns: String,
    /// root prefix declarations (prefix, uri); the xs prefix is always declared as `xs`
    pub prefixes: Vec<(String, String)>,
    /// xmlns="..." on the root
    pub default_ns: Option<String>,
    pub imports: Vec<Import>,
    pub comps: Vec<Comp>,
}

#[derive(Clone, Debug, Serialize, Deserialize, PartialEq, Eq, Hash)]
pub struct Part {
    pub name: String,
    pub element: QName,
}

#[derive(Clone, Debug, Serialize, Deserialize, PartialEq, Eq, Hash)]
pub struct Message {
    pub name: String,
    pub parts: Vec<Part>,
}

#[derive(Clone, Debug, Serialize, Deserialize, PartialEq, Eq, Hash)]
pub struct PtOp {
    pub name: String,
    pub input: String,
    pub output: Option<String>,
}

#[derive(Clone, Debug, Serialize, Deserialize, PartialEq, Eq, Hash, Default)]
pub struct BIo {
    /// (message, part)
    pub headers: Vec<(String, String)>,
    /// soap:body parts="..." (None = attribute absent)
    pub parts: Option<String>,
}

#[derive(Clone, Debug, Serialize, Deserialize, PartialEq, Eq, Hash)]
pub struct BOp {
    pub name: String,
    pub action: Option<String>,
    pub input: BIo,
    pub output: Option<BIo>,
}

#[derive(Clone, Debug, Serialize, Deserialize, PartialEq, Eq, Hash)]
pub struct Wsdl {
    pub name: String,
    pub tns: String,
    /// extra prefixes on <definitions> (prefix, uri); wsdl, soap, xs, tns are always declared
    pub prefixes: Vec<(String, String)>,
    /// the inline schema (its `name` is unused); it inherits the prefixes of <definitions>
    pub schema: XsdFile,
    pub messages: Vec<Message>,
    pub port_type: String,
    pub pt_ops: Vec<PtOp>,
    pub binding: String,
    pub b_ops: Vec<BOp>,
    pub service: String,
    pub port: String,
    pub address: String,
    /// print the WSDL elements unprefixed under xmlns="<WSDL namespace>" on <definitions>, and the
    /// inline schema under its own xmlns="<its target namespace>" with unprefixed references to
    /// its own components (the default namespace changes on the way down)
    #[serde(default)]
    pub default_ns_style: bool,
}

#[derive(Clone, Debug, Serialize, Deserialize, PartialEq, Eq, Hash)]
pub struct SchemaSet {
    pub files: Vec<XsdFile>,
    pub wsdl: Option<Wsdl>,
    pub start: String,
    /// print the XML Schema namespace as the DEFAULT namespace of every .xsd file (`<schema
    /// xmlns="http://www.w3.org/2001/XMLSchema">`, `<element>`, `type="string"`): a common spelling
    #[serde(default)]
    pub xs_is_default_namespace: bool,
}

pub fn esc(s: &str) -> String {
    let mut o = String::with_capacity(s.len());
    for c in s.chars() {
        match c {
            '&' => o.push_str("&amp;"),
            '<' => o.push_str("&lt;"),
            '>' => o.push_str("&gt;"),
            '"' => o.push_str("&quot;"),
            '\n' => o.push_str("&#10;"),
            '\r' => o.push_str("&#13;"),
            '\t' => o.push_str("&#9;"),
            c => o.push(c),
        }
    }
    o
}

pub fn esc_text(s: &str) -> String {
    let mut o = String::with_capacity(s.len());
    for c in s.chars() {
        match c {
            '&' => o.push_str("&amp;"),
            '<' => o.push_str("&lt;"),
            '>' => o.push_str("&gt;"),
            '\r' => o.push_str("&#13;"),
            c => o.push(c),
        }
    }
    o
}

/// prefix scope: innermost first
struct Scope<'a> {
    frames: Vec<&'a [(String, String)]>,
    default_ns: Option<&'a str>,
}

impl<'a> Scope<'a> {
    fn qname(&self, q: &QName) -> String {
        if let Some(p) = &q.prefer {
            if p.is_empty() {
                return q.local.clone();
            }
            return format!("{p}:{}", q.local);
        }
        // innermost declaration first; a prefix that an inner frame rebinds to ANOTHER namespace is
        // shadowed there and cannot be used for the outer one
        for (i, f) in self.frames.iter().enumerate() {
            for (p, u) in f.iter() {
                let shadowed = self.frames[..i].iter().any(|inner| inner.iter().any(|(ip, iu)| ip == p && iu != u));
                if *u == q.ns && !shadowed {
                    // the empty prefix is a default-namespace declaration
                    return if p.is_empty() { q.local.clone() } else { format!("{p}:{}", q.local) };
                }
            }
        }
        if self.default_ns == Some(q.ns.as_str()) {
            return q.local.clone();
        }
        panic!("schema printer: no prefix in scope for namespace {} (name {})", q.ns, q.local);
    }
    fn tref(&self, t: &TypeRef) -> String {
        match t {
            TypeRef::Builtin(b) => format!("xs:{b}"),
            TypeRef::Named(q) => self.qname(q),
        }
    }
    fn push(&self, f: &'a [(String, String)]) -> Scope<'a> {
        let mut frames = vec![f];
        frames.extend(self.frames.iter().copied());
        Scope { frames, default_ns: self.default_ns }
    }
}

fn occ_attrs(min: u32, max: Max) -> String {
    let mut s = String::new();
    if min != 1 {
        let _ = write!(s, " minOccurs=\"{min}\"");
    }
    match max {
        Max::N(1) => {}
        Max::N(n) => {
            let _ = write!(s, " maxOccurs=\"{n}\"");
        }
        Max::Unbounded => s.push_str(" maxOccurs=\"unbounded\""),
    }
    s
}

fn xmlns_attrs(x: &[(String, String)]) -> String {
    let mut s = String::new();
    for (p, u) in x {
        if p.is_empty() {
            let _ = write!(s, " xmlns=\"{}\"", esc(u));
        } else {
            let _ = write!(s, " xmlns:{p}=\"{}\"", esc(u));
        }
    }
    s
}

fn doc_xml(doc: &Option<String>, ind: &str) -> String {
    match doc {
        None => String::new(),
        Some(d) => format!(
            "{ind}<xs:annotation>\n{ind}  <xs:documentation>{}</xs:documentation>\n{ind}</xs:annotation>\n",
            esc_text(d)
        ),
    }
}

fn print_particle(o: &mut String, p: &Particle, sc: &Scope, ind: usize) {
    let pad = " ".repeat(ind);
    match p {
        Particle::Elem(e) => {
            let occ = if e.explicit { format!(" minOccurs=\"{}\" maxOccurs=\"{}\"", e.min, e.max.label()) } else { occ_attrs(e.min, e.max) };
            let sc = sc.push(&e.xmlns);
            let _ = writeln!(o, "{pad}<xs:element name=\"{}\" type=\"{}\"{occ}{}/>", esc(&e.name), sc.tref(&e.ty), xmlns_attrs(&e.xmlns));
        }
        Particle::Ref(r) => {
            let sc = sc.push(&r.xmlns);
            let _ = writeln!(o, "{pad}<xs:element ref=\"{}\"{}{}/>", sc.qname(&r.target), occ_attrs(r.min, r.max), xmlns_attrs(&r.xmlns));
        }
        Particle::Seq(s) => print_seq(o, s, sc, ind),
        Particle::Choice(items) => {
            let _ = writeln!(o, "{pad}<xs:choice>");
            for i in items {
                print_particle(o, i, sc, ind + 2);
            }
            let _ = writeln!(o, "{pad}</xs:choice>");
        }
    }
}

fn print_seq(o: &mut String, s: &Seq, sc: &Scope, ind: usize) {
    let pad = " ".repeat(ind);
    let _ = writeln!(o, "{pad}<xs:sequence{}>", occ_attrs(s.min, s.max));
    if s.doc.is_some() {
        o.push_str(&doc_xml(&s.doc, &" ".repeat(ind + 2)));
    }
    for i in &s.items {
        print_particle(o, i, sc, ind + 2);
    }
    let _ = writeln!(o, "{pad}</xs:sequence>");
}

fn print_attrs(o: &mut String, attrs: &[Attr], sc: &Scope, ind: usize) {
    let pad = " ".repeat(ind);
    for a in attrs {
        let vc = match &a.value_constraint {
            Some((false, v)) => format!(" default=\"{}\"", esc(v)),
            Some((true, v)) => format!(" fixed=\"{}\"", esc(v)),
            None => String::new(),
        };
        let _ = writeln!(
            o,
            "{pad}<xs:attribute name=\"{}\" type=\"{}\" use=\"{}\"{vc}/>",
            esc(&a.name),
            sc.tref(&a.ty),
            if a.required { "required" } else { "optional" }
        );
    }
}

fn print_content(o: &mut String, base: &Option<QName>, seq: &Option<Seq>, attrs: &[Attr], sc: &Scope, ind: usize) {
    let pad = " ".repeat(ind);
    match base {
        None => {
            if let Some(s) = seq {
                print_seq(o, s, sc, ind);
            }
            print_attrs(o, attrs, sc, ind);
        }
        Some(b) => {
            let _ = writeln!(o, "{pad}<xs:complexContent>");
            // a documentation text that starts with "@complexContent:" is placed as the first child of
            // <xs:complexContent> (before the extension) instead of inside the extension and the sequence
            let on_content = seq.as_ref().and_then(|s| s.doc.as_ref()).and_then(|d| d.strip_prefix("@complexContent:"));
            if let Some(d) = on_content {
                o.push_str(&doc_xml(&Some(d.to_string()), &" ".repeat(ind + 2)));
            }
            let _ = writeln!(o, "{pad}  <xs:extension base=\"{}\">", sc.qname(b));
            if let Some(s) = seq {
                if on_content.is_some() {
                    let mut plain = s.clone();
                    plain.doc = None;
                    print_seq(o, &plain, sc, ind + 4);
                } else {
                    if s.doc.is_some() {
                        o.push_str(&doc_xml(&s.doc, &" ".repeat(ind + 4)));
                    }
                    print_seq(o, s, sc, ind + 4);
                }
            }
            print_attrs(o, attrs, sc, ind + 4);
            let _ = writeln!(o, "{pad}  </xs:extension>");
            let _ = writeln!(o, "{pad}</xs:complexContent>");
        }
    }
}

fn print_comp(o: &mut String, c: &Comp, sc: &Scope, ind: usize) {
    let pad = " ".repeat(ind);
    match c {
        Comp::Complex(ct) => {
            let sc = sc.push(&ct.xmlns);
            let _ = writeln!(o, "{pad}<xs:complexType name=\"{}\"{}>", esc(&ct.name), xmlns_attrs(&ct.xmlns));
            o.push_str(&doc_xml(&ct.doc, &" ".repeat(ind + 2)));
            print_content(o, &ct.base, &ct.seq, &ct.attrs, &sc, ind + 2);
            let _ = writeln!(o, "{pad}</xs:complexType>");
        }
        Comp::Simple(st) => {
            let sc = sc.push(&st.xmlns);
            let _ = writeln!(o, "{pad}<xs:simpleType name=\"{}\"{}>", esc(&st.name), xmlns_attrs(&st.xmlns));
            o.push_str(&doc_xml(&st.doc, &" ".repeat(ind + 2)));
            let mut ratt = String::new();
            if st.facets_as_attrs {
                for f in st.facets.iter().filter(|f| f.kind != "enumeration") {
                    let _ = write!(ratt, " {}=\"{}\"", f.kind, esc(&f.value));
                }
            }
            let _ = writeln!(o, "{pad}  <xs:restriction base=\"{}\"{ratt}>", sc.tref(&st.base));
            for f in &st.facets {
                if st.facets_as_attrs && f.kind != "enumeration" {
                    continue;
                }
                let _ = writeln!(o, "{pad}    <xs:{} value=\"{}\"/>", f.kind, esc(&f.value));
            }
            let _ = writeln!(o, "{pad}  </xs:restriction>");
            let _ = writeln!(o, "{pad}</xs:simpleType>");
        }
        Comp::Element(ge) => {
            let sc = sc.push(&ge.xmlns);
            match &ge.kind {
                GlobalKind::Typed(t) => {
                    if ge.doc.is_some() {
                        let _ = writeln!(o, "{pad}<xs:element name=\"{}\" type=\"{}\"{}>", esc(&ge.name), sc.tref(t), xmlns_attrs(&ge.xmlns));
                        o.push_str(&doc_xml(&ge.doc, &" ".repeat(ind + 2)));
                        let _ = writeln!(o, "{pad}</xs:element>");
                    } else {
                        let _ = writeln!(o, "{pad}<xs:element name=\"{}\" type=\"{}\"{}/>", esc(&ge.name), sc.tref(t), xmlns_attrs(&ge.xmlns));
                    }
                }
                GlobalKind::Anonymous { seq, attrs } => {
                    let _ = writeln!(o, "{pad}<xs:element name=\"{}\"{}>", esc(&ge.name), xmlns_attrs(&ge.xmlns));
                    o.push_str(&doc_xml(&ge.doc, &" ".repeat(ind + 2)));
                    let _ = writeln!(o, "{pad}  <xs:complexType>");
                    print_content(o, &None, seq, attrs, &sc, ind + 4);
                    let _ = writeln!(o, "{pad}  </xs:complexType>");
                    let _ = writeln!(o, "{pad}</xs:element>");
                }
            }
        }
    }
}

fn print_schema_body(o: &mut String, f: &XsdFile, sc: &Scope, ind: usize) {
    let pad = " ".repeat(ind);
    for i in &f.imports {
        match &i.loc {
            Some(l) => {
                let _ = writeln!(o, "{pad}<xs:import namespace=\"{}\" schemaLocation=\"{}\"/>", esc(&i.ns), esc(l));
            }
            None => {
                let _ = writeln!(o, "{pad}<xs:import namespace=\"{}\"/>", esc(&i.ns));
            }
        }
    }
    for c in &f.comps {
        print_comp(o, c, sc, ind);
    }
}

pub fn print_xsd(f: &XsdFile) -> String {
    let mut o = String::new();
    o.push_str("<?xml version=\"1.0\" encoding=\"UTF-8\"?>\n");
    let mut root = format!("<xs:schema xmlns:xs=\"{XS}\"");
    if let Some(d) = &f.default_ns {
        let _ = write!(root, " xmlns=\"{}\"", esc(d));
    }
    root.push_str(&xmlns_attrs(&f.prefixes));
    let _ = write!(root, " targetNamespace=\"{}\" elementFormDefault=\"qualified\">", esc(&f.tns));
    let _ = writeln!(o, "{root}");
    let sc = Scope { frames: vec![&f.prefixes], default_ns: f.default_ns.as_deref() };
    print_schema_body(&mut o, f, &sc, 2);
    o.push_str("</xs:schema>\n");
    o
}

pub fn print_wsdl(w: &Wsdl) -> String {
    let text = print_wsdl_prefixed(w);
    if !w.default_ns_style {
        return text;
    }
    // same infoset, other spelling: WSDL elements in the default namespace, the inline schema under
    // a default namespace of its own
    let text = text.replace(&format!("xmlns:wsdl=\"{WSDL_NS}\""), &format!("xmlns=\"{WSDL_NS}\"")).replace("<wsdl:", "<").replace("</wsdl:", "</");
    let (head, rest) = text.split_once("<xs:schema").expect("inline schema");
    let (schema, tail) = rest.split_once("</xs:schema>").expect("inline schema end");
    let own = format!("tns:");
    let mut schema = schema.to_string();
    if w.schema.tns == w.tns && w.schema.default_ns.is_none() {
        for attr in ["type", "base", "ref"] {
            schema = schema.replace(&format!(" {attr}=\"{own}"), &format!(" {attr}=\""));
        }
        schema = schema.replacen(" targetNamespace=", &format!(" xmlns=\"{}\" targetNamespace=", esc(&w.schema.tns)), 1);
    }
    format!("{head}<xs:schema{schema}</xs:schema>{tail}")
}

fn print_wsdl_prefixed(w: &Wsdl) -> String {
    let mut o = String::new();
    o.push_str("<?xml version=\"1.0\" encoding=\"UTF-8\"?>\n");
    let mut all_prefixes: Vec<(String, String)> = vec![("tns".into(), w.tns.clone())];
    all_prefixes.extend(w.prefixes.iter().cloned());
    let _ = writeln!(
        o,
        "<wsdl:definitions xmlns:wsdl=\"{WSDL_NS}\" xmlns:soap=\"{SOAP_NS}\" xmlns:xs=\"{XS}\"{} name=\"{}\" targetNamespace=\"{}\">",
        xmlns_attrs(&all_prefixes),
        esc(&w.service),
        esc(&w.tns)
    );
    o.push_str("  <wsdl:types>\n");
    {
        let s = &w.schema;
        let mut root = String::from("    <xs:schema");
        if let Some(d) = &s.default_ns {
            let _ = write!(root, " xmlns=\"{}\"", esc(d));
        }
        root.push_str(&xmlns_attrs(&s.prefixes));
        let _ = write!(root, " targetNamespace=\"{}\" elementFormDefault=\"qualified\">", esc(&s.tns));
        let _ = writeln!(o, "{root}");
        let sc = Scope { frames: vec![&s.prefixes, &all_prefixes], default_ns: s.default_ns.as_deref() };
        print_schema_body(&mut o, s, &sc, 6);
        o.push_str("    </xs:schema>\n");
    }
    o.push_str("  </wsdl:types>\n");
    let sc = Scope { frames: vec![&all_prefixes], default_ns: None };
    for m in &w.messages {
        let _ = writeln!(o, "  <wsdl:message name=\"{}\">", esc(&m.name));
        for p in &m.parts {
            let _ = writeln!(o, "    <wsdl:part name=\"{}\" element=\"{}\"/>", esc(&p.name), sc.qname(&p.element));
        }
        o.push_str("  </wsdl:message>\n");
    }
    let _ = writeln!(o, "  <wsdl:portType name=\"{}\">", esc(&w.port_type));
    for op in &w.pt_ops {
        let _ = writeln!(o, "    <wsdl:operation name=\"{}\">", esc(&op.name));
        let _ = writeln!(o, "      <wsdl:input message=\"tns:{}\"/>", esc(&op.input));
        if let Some(out) = &op.output {
            let _ = writeln!(o, "      <wsdl:output message=\"tns:{}\"/>", esc(out));
        }
        o.push_str("    </wsdl:operation>\n");
    }
    o.push_str("  </wsdl:portType>\n");
    let _ = writeln!(o, "  <wsdl:binding name=\"{}\" type=\"tns:{}\">", esc(&w.binding), esc(&w.port_type));
    o.push_str("    <soap:binding style=\"document\" transport=\"http://schemas.xmlsoap.org/soap/http\"/>\n");
    for op in &w.b_ops {
        let _ = writeln!(o, "    <wsdl:operation name=\"{}\">", esc(&op.name));
        match &op.action {
            Some(a) => {
                let _ = writeln!(o, "      <soap:operation soapAction=\"{}\" style=\"document\"/>", esc(a));
            }
            None => o.push_str("      <soap:operation style=\"document\"/>\n"),
        }
        let io = |o: &mut String, tag: &str, b: &BIo| {
            let _ = writeln!(o, "      <wsdl:{tag}>");
            for (m, p) in &b.headers {
                let _ = writeln!(o, "        <soap:header message=\"tns:{}\" part=\"{}\" use=\"literal\"/>", esc(m), esc(p));
            }
            match &b.parts {
                Some(p) => {
                    let _ = writeln!(o, "        <soap:body parts=\"{}\" use=\"literal\"/>", esc(p));
                }
                None => o.push_str("        <soap:body use=\"literal\"/>\n"),
            }
            let _ = writeln!(o, "      </wsdl:{tag}>");
        };
        io(&mut o, "input", &op.input);
        if let Some(out) = &op.output {
            io(&mut o, "output", out);
        }
        o.push_str("    </wsdl:operation>\n");
    }
    o.push_str("  </wsdl:binding>\n");
    let _ = writeln!(o, "  <wsdl:service name=\"{}\">", esc(&w.service));
    let _ = writeln!(o, "    <wsdl:port name=\"{}\" binding=\"tns:{}\">", esc(&w.port), esc(&w.binding));
    let _ = writeln!(o, "      <soap:address location=\"{}\"/>", esc(&w.address));
    o.push_str("    </wsdl:port>\n  </wsdl:service>\n</wsdl:definitions>\n");
    o
}

impl SchemaSet {
    /// the canonical form: the printed file set, sorted by file name
    pub fn print(&self) -> Vec<(String, String)> {
        let xs_default = |f: &XsdFile, text: String| {
            if !self.xs_is_default_namespace || f.default_ns.is_some() {
                return text;
            }
            // same infoset, other spelling: the XML Schema namespace is the default namespace, so its
            // elements and the builtin type names are written without a prefix
            text.replace(&format!("xmlns:xs=\"{XS}\""), &format!("xmlns=\"{XS}\"")).replace("<xs:", "<").replace("</xs:", "</").replace("=\"xs:", "=\"")
        };
        let mut v: Vec<(String, String)> = self.files.iter().map(|f| (f.name.clone(), xs_default(f, print_xsd(f)))).collect();
        if let Some(w) = &self.wsdl {
            v.push((w.name.clone(), print_wsdl(w)));
        }
        v.sort();
        v
    }
    pub fn to_case(&self) -> crate::runner::Case {
        crate::runner::Case { files: self.print(), start: self.start.clone() }
    }
    pub fn canon_hash(&self) -> String {
        let p = self.print();
        let s = serde_json::to_string(&(p, &self.start)).unwrap();
        crate::report::hash128(s.as_bytes())
    }
    pub fn file_mut(&mut self, name: &str) -> &mut XsdFile {
        self.files.iter_mut().find(|f| f.name == name).expect("file")
    }
    pub fn file(&self, name: &str) -> &XsdFile {
        self.files.iter().find(|f| f.name == name).expect("file")
    }
    /// all schemas of the set (files and the WSDL's inline schema)
    pub fn schemas(&self) -> Vec<&XsdFile> {
        let mut v: Vec<&XsdFile> = self.files.iter().collect();
        if let Some(w) = &self.wsdl {
            v.push(&w.schema);
        }
        v
    }
}
