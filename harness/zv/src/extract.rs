//! E4: semantic view of an emitted file. `syn` parse into an item model: module tree, structs with
//! their `#[yaserde(...)]` attributes, fields (wrapper + element type), aliases, impls and fns,
//! string literals, identifiers. Insensitive to spelling, order, whitespace and module names.

use proc_macro2::{Delimiter, TokenStream, TokenTree};
use std::collections::BTreeMap;
use syn::visit::Visit;

#[derive(Clone, Debug, Default, PartialEq)]
pub struct YaAttrs {
    pub prefix: Option<String>,
    pub rename: Option<String>,
    pub namespaces: Vec<(String, String)>,
    pub attribute: bool,
    pub text: bool,
    pub flatten: bool,
    pub other: Vec<String>,
}

#[derive(Clone, Debug, PartialEq)]
pub enum Wrapper {
    Bare,
    Option,
    Vec,
}

impl Wrapper {
    pub fn label(&self) -> &'static str {
        match self {
            Wrapper::Bare => "bare",
            Wrapper::Option => "Option",
            Wrapper::Vec => "Vec",
        }
    }
}

#[derive(Clone, Debug, PartialEq)]
pub struct TypeShape {
    pub wrapper: Wrapper,
    /// path segments of the element type (`["i64"]`, `["mod_alp", "Leaf"]`); generic arguments are
    /// kept in `generic` (e.g. multi_ref::MultiRef<T>)
    pub path: Vec<String>,
    pub generic: Option<Box<TypeShape>>,
    pub text: String,
}

#[derive(Clone, Debug)]
pub struct FieldInfo {
    pub ident: String,
    /// identifier without the `r#` marker
    pub bare_ident: String,
    pub is_pub: bool,
    pub ty: TypeShape,
    pub ya: YaAttrs,
    pub line: usize,
}

#[derive(Clone, Debug)]
pub struct StructInfo {
    pub module: Vec<String>,
    pub name: String,
    pub is_pub: bool,
    pub ya: YaAttrs,
    pub derives: Vec<String>,
    pub fields: Vec<FieldInfo>,
    pub docs: Vec<String>,
    pub lines: (usize, usize),
}

impl StructInfo {
    /// namespace URI the struct serializes under (its prefix looked up in its own namespaces map)
    pub fn ns_uri(&self) -> Option<&str> {
        let p = self.ya.prefix.as_ref()?;
        self.ya.namespaces.iter().find(|(k, _)| k == p).map(|(_, u)| u.as_str())
    }
    pub fn prefix_uri(&self, prefix: &str) -> Option<&str> {
        self.ya.namespaces.iter().find(|(k, _)| k == prefix).map(|(_, u)| u.as_str())
    }
    pub fn path(&self) -> Vec<String> {
        let mut p = self.module.clone();
        p.push(self.name.clone());
        p
    }
}

#[derive(Clone, Debug)]
pub struct AliasInfo {
    pub module: Vec<String>,
    pub name: String,
    pub target: TypeShape,
    pub line: usize,
}

#[derive(Clone, Debug)]
pub struct FnInfo {
    pub module: Vec<String>,
    /// Some(type name) when the fn is a method of `impl Type`
    pub impl_of: Option<String>,
    pub trait_of: Option<String>,
    pub name: String,
    pub is_pub: bool,
    pub is_async: bool,
    pub has_self: bool,
    /// (arg name, type text, shape)
    pub args: Vec<(String, TypeShape)>,
    pub ret: Option<TypeShape>,
    pub body_strings: Vec<String>,
    pub line: usize,
}

#[derive(Clone, Debug, Default)]
pub struct ModInfo {
    pub path: Vec<String>,
    pub is_pub: bool,
    pub uses_super_glob: bool,
    /// names defined directly in the module: structs, aliases, fns, sub-modules, consts, enums, traits
    pub items: Vec<(String, &'static str)>,
    pub lines: (usize, usize),
}

#[derive(Clone, Debug, Default)]
pub struct Extract {
    pub mods: Vec<ModInfo>,
    pub structs: Vec<StructInfo>,
    pub aliases: Vec<AliasInfo>,
    pub fns: Vec<FnInfo>,
    /// every string literal of the file with its evaluated value and line
    pub strings: Vec<(String, usize)>,
    /// every identifier of the syntax tree (outside attributes' string contents)
    pub idents: Vec<(String, usize)>,
    /// identifier-like tokens inside macro bodies (keywords included: they are plain tokens there)
    pub macro_idents: Vec<(String, usize)>,
    /// doc attributes (`///` and `//!`), evaluated
    pub docs: Vec<String>,
    pub duplicate_items: Vec<String>,
}

pub fn parse_ya_attr(ts: TokenStream, out: &mut YaAttrs) {
    let toks: Vec<TokenTree> = ts.into_iter().collect();
    let mut i = 0;
    while i < toks.len() {
        let TokenTree::Ident(id) = &toks[i] else {
            i += 1;
            continue;
        };
        let key = id.to_string();
        // key = value ?
        let mut val: Option<&TokenTree> = None;
        if i + 2 < toks.len() + 0 {
            if let TokenTree::Punct(p) = &toks[i + 1] {
                if p.as_char() == '=' {
                    val = toks.get(i + 2);
                }
            }
        }
        let lit_str = |t: &TokenTree| -> Option<String> {
            if let TokenTree::Literal(l) = t {
                let s: syn::Result<syn::LitStr> = syn::parse_str(&l.to_string());
                return s.ok().map(|x| x.value());
            }
            None
        };
        let lit_bool = |t: &TokenTree| -> Option<bool> {
            if let TokenTree::Ident(b) = t {
                return match b.to_string().as_str() {
                    "true" => Some(true),
                    "false" => Some(false),
                    _ => None,
                };
            }
            None
        };
        match (key.as_str(), val) {
            ("prefix", Some(v)) => out.prefix = lit_str(v),
            ("rename", Some(v)) => out.rename = lit_str(v),
            ("attribute", Some(v)) => out.attribute = lit_bool(v).unwrap_or(false),
            ("attribute", None) => out.attribute = true,
            ("text", Some(v)) => out.text = lit_bool(v).unwrap_or(false),
            ("text", None) => out.text = true,
            ("flatten", Some(v)) => out.flatten = lit_bool(v).unwrap_or(false),
            ("flatten", None) => out.flatten = true,
            ("namespaces", Some(TokenTree::Group(g))) if g.delimiter() == Delimiter::Brace => {
                let inner: Vec<TokenTree> = g.stream().into_iter().collect();
                let mut j = 0;
                while j + 2 < inner.len() {
                    if let (Some(k), TokenTree::Punct(p), Some(u)) = (lit_str(&inner[j]), &inner[j + 1], lit_str(&inner[j + 2])) {
                        if p.as_char() == '=' {
                            out.namespaces.push((k, u));
                        }
                    }
                    j += 3;
                    if let Some(TokenTree::Punct(p)) = inner.get(j) {
                        if p.as_char() == ',' {
                            j += 1;
                        }
                    }
                }
            }
            (k, _) => out.other.push(k.to_string()),
        }
        i += if val.is_some() { 3 } else { 1 };
    }
}

fn ya_of(attrs: &[syn::Attribute]) -> YaAttrs {
    let mut y = YaAttrs::default();
    for a in attrs {
        if a.path().is_ident("yaserde") {
            if let syn::Meta::List(l) = &a.meta {
                parse_ya_attr(l.tokens.clone(), &mut y);
            }
        }
    }
    y
}

fn derives_of(attrs: &[syn::Attribute]) -> Vec<String> {
    let mut v = vec![];
    for a in attrs {
        if a.path().is_ident("derive") {
            if let syn::Meta::List(l) = &a.meta {
                for t in l.tokens.clone() {
                    if let TokenTree::Ident(i) = t {
                        v.push(i.to_string());
                    }
                }
            }
        }
    }
    v
}

fn docs_of(attrs: &[syn::Attribute]) -> Vec<String> {
    let mut v = vec![];
    for a in attrs {
        if a.path().is_ident("doc") {
            if let syn::Meta::NameValue(nv) = &a.meta {
                if let syn::Expr::Lit(syn::ExprLit { lit: syn::Lit::Str(s), .. }) = &nv.value {
                    v.push(s.value());
                }
            }
        }
    }
    v
}

pub fn type_shape(t: &syn::Type) -> TypeShape {
    let text = quote::quote!(#t).to_string().replace(' ', "");
    fn path_of(p: &syn::Path) -> (Vec<String>, Option<syn::Type>) {
        let mut segs = vec![];
        let mut gen = None;
        for s in &p.segments {
            segs.push(s.ident.to_string());
            if let syn::PathArguments::AngleBracketed(ab) = &s.arguments {
                for a in &ab.args {
                    if let syn::GenericArgument::Type(t) = a {
                        gen = Some(t.clone());
                    }
                }
            }
        }
        (segs, gen)
    }
    match t {
        syn::Type::Path(tp) => {
            let (segs, gen) = path_of(&tp.path);
            let last = segs.last().cloned().unwrap_or_default();
            if segs.len() == 1 && (last == "Option" || last == "Vec") {
                if let Some(inner) = gen {
                    let mut s = type_shape(&inner);
                    // only one level of wrapper is meaningful here; nested wrappers are kept in text
                    if s.wrapper == Wrapper::Bare {
                        s.wrapper = if last == "Option" { Wrapper::Option } else { Wrapper::Vec };
                        s.text = text;
                        return s;
                    }
                    return TypeShape { wrapper: if last == "Option" { Wrapper::Option } else { Wrapper::Vec }, path: vec![s.text.clone()], generic: None, text };
                }
            }
            TypeShape { wrapper: Wrapper::Bare, path: segs, generic: gen.map(|g| Box::new(type_shape(&g))), text }
        }
        syn::Type::Reference(r) => {
            let mut s = type_shape(&r.elem);
            s.text = text;
            s
        }
        syn::Type::Tuple(tt) if tt.elems.is_empty() => TypeShape { wrapper: Wrapper::Bare, path: vec!["()".into()], generic: None, text },
        _ => TypeShape { wrapper: Wrapper::Bare, path: vec![text.clone()], generic: None, text },
    }
}

struct Collector<'a> {
    ex: &'a mut Extract,
}

impl<'ast, 'a> Visit<'ast> for Collector<'a> {
    fn visit_lit_str(&mut self, l: &'ast syn::LitStr) {
        self.ex.strings.push((l.value(), l.span().start().line));
    }
    fn visit_ident(&mut self, i: &'ast proc_macro2::Ident) {
        self.ex.idents.push((i.to_string(), i.span().start().line));
    }
    fn visit_lifetime(&mut self, _l: &'ast syn::Lifetime) {
        // the name of a lifetime ('static) is not an identifier in the sense of the property
    }
    fn visit_macro(&mut self, m: &'ast syn::Macro) {
        // macro bodies are token streams: collect string literals and identifiers from them too
        fn walk(ts: TokenStream, ex: &mut Extract) {
            for t in ts {
                match t {
                    TokenTree::Group(g) => walk(g.stream(), ex),
                    TokenTree::Ident(i) => ex.macro_idents.push((i.to_string(), i.span().start().line)),
                    TokenTree::Literal(l) => {
                        if let Ok(s) = syn::parse_str::<syn::LitStr>(&l.to_string()) {
                            ex.strings.push((s.value(), l.span().start().line));
                        }
                    }
                    _ => {}
                }
            }
        }
        walk(m.tokens.clone(), self.ex);
        syn::visit::visit_macro(self, m);
    }
}

struct BodyStrings {
    out: Vec<String>,
}
impl<'ast> Visit<'ast> for BodyStrings {
    fn visit_lit_str(&mut self, l: &'ast syn::LitStr) {
        self.out.push(l.value());
    }
}

fn fn_info(module: &[String], impl_of: Option<String>, trait_of: Option<String>, vis_pub: bool, sig: &syn::Signature, block: Option<&syn::Block>) -> FnInfo {
    let mut args = vec![];
    let mut has_self = false;
    for a in &sig.inputs {
        match a {
            syn::FnArg::Receiver(_) => has_self = true,
            syn::FnArg::Typed(pt) => {
                let name = match &*pt.pat {
                    syn::Pat::Ident(pi) => pi.ident.to_string(),
                    _ => "_".into(),
                };
                args.push((name, type_shape(&pt.ty)));
            }
        }
    }
    let ret = match &sig.output {
        syn::ReturnType::Default => None,
        syn::ReturnType::Type(_, t) => Some(type_shape(t)),
    };
    let mut bs = BodyStrings { out: vec![] };
    if let Some(b) = block {
        bs.visit_block(b);
    }
    FnInfo {
        module: module.to_vec(),
        impl_of,
        trait_of,
        name: sig.ident.to_string(),
        is_pub: vis_pub,
        is_async: sig.asyncness.is_some(),
        has_self,
        args,
        ret,
        body_strings: bs.out,
        line: sig.ident.span().start().line,
    }
}

fn is_pub(v: &syn::Visibility) -> bool {
    matches!(v, syn::Visibility::Public(_))
}

fn walk_items(items: &[syn::Item], module: &[String], ex: &mut Extract, modinfo_idx: usize) {
    for it in items {
        match it {
            syn::Item::Struct(s) => {
                let mut fields = vec![];
                if let syn::Fields::Named(n) = &s.fields {
                    for f in &n.named {
                        let ident = f.ident.as_ref().map(|i| i.to_string()).unwrap_or_default();
                        fields.push(FieldInfo {
                            bare_ident: ident.trim_start_matches("r#").to_string(),
                            ident,
                            is_pub: is_pub(&f.vis),
                            ty: type_shape(&f.ty),
                            ya: ya_of(&f.attrs),
                            line: f.ident.as_ref().map(|i| i.span().start().line).unwrap_or(0),
                        });
                    }
                }
                let name = s.ident.to_string();
                ex.mods[modinfo_idx].items.push((name.clone(), "struct"));
                use syn::spanned::Spanned;
                ex.structs.push(StructInfo {
                    module: module.to_vec(),
                    name,
                    is_pub: is_pub(&s.vis),
                    ya: ya_of(&s.attrs),
                    derives: derives_of(&s.attrs),
                    fields,
                    docs: docs_of(&s.attrs),
                    lines: (s.span().start().line, s.span().end().line),
                });
            }
            syn::Item::Type(t) => {
                let name = t.ident.to_string();
                ex.mods[modinfo_idx].items.push((name.clone(), "type"));
                ex.aliases.push(AliasInfo { module: module.to_vec(), name, target: type_shape(&t.ty), line: t.ident.span().start().line });
            }
            syn::Item::Fn(f) => {
                ex.mods[modinfo_idx].items.push((f.sig.ident.to_string(), "fn"));
                ex.fns.push(fn_info(module, None, None, is_pub(&f.vis), &f.sig, Some(&f.block)));
            }
            syn::Item::Impl(im) => {
                let self_ty = type_shape(&im.self_ty);
                let ty_name = self_ty.path.last().cloned().unwrap_or_default();
                let trait_of = im.trait_.as_ref().map(|(_, p, _)| p.segments.last().map(|s| s.ident.to_string()).unwrap_or_default());
                for ii in &im.items {
                    if let syn::ImplItem::Fn(m) = ii {
                        ex.fns.push(fn_info(module, Some(ty_name.clone()), trait_of.clone(), is_pub(&m.vis), &m.sig, Some(&m.block)));
                    }
                }
            }
            syn::Item::Mod(m) => {
                let name = m.ident.to_string();
                ex.mods[modinfo_idx].items.push((name.clone(), "mod"));
                if let Some((_, inner)) = &m.content {
                    let mut path = module.to_vec();
                    path.push(name);
                    use syn::spanned::Spanned;
                    let glob = inner.iter().any(|i| {
                        if let syn::Item::Use(u) = i {
                            let t = quote::quote!(#u).to_string().replace(' ', "");
                            t.contains("super::*")
                        } else {
                            false
                        }
                    });
                    ex.mods.push(ModInfo { path: path.clone(), is_pub: is_pub(&m.vis), uses_super_glob: glob, items: vec![], lines: (m.span().start().line, m.span().end().line) });
                    let idx = ex.mods.len() - 1;
                    walk_items(inner, &path, ex, idx);
                }
            }
            syn::Item::Const(c) => ex.mods[modinfo_idx].items.push((c.ident.to_string(), "const")),
            syn::Item::Enum(e) => ex.mods[modinfo_idx].items.push((e.ident.to_string(), "enum")),
            syn::Item::Trait(t) => ex.mods[modinfo_idx].items.push((t.ident.to_string(), "trait")),
            _ => {}
        }
    }
}

pub fn extract(text: &str) -> Result<Extract, String> {
    let file = syn::parse_file(text).map_err(|e| {
        let l = e.span().start().line;
        let line_text = text.lines().nth(l.saturating_sub(1)).unwrap_or("");
        format!("line {l}: {e} | {}", line_text.trim())
    })?;
    let mut ex = Extract::default();
    ex.docs = docs_of(&file.attrs);
    ex.mods.push(ModInfo { path: vec![], is_pub: true, uses_super_glob: false, items: vec![], lines: (1, text.lines().count()) });
    walk_items(&file.items, &[], &mut ex, 0);
    {
        let mut c = Collector { ex: &mut ex };
        c.visit_file(&file);
    }
    // doc attributes anywhere
    struct Docs<'a> {
        out: &'a mut Vec<String>,
    }
    impl<'ast, 'a> Visit<'ast> for Docs<'a> {
        fn visit_attribute(&mut self, a: &'ast syn::Attribute) {
            if a.path().is_ident("doc") {
                if let syn::Meta::NameValue(nv) = &a.meta {
                    if let syn::Expr::Lit(syn::ExprLit { lit: syn::Lit::Str(s), .. }) = &nv.value {
                        self.out.push(s.value());
                    }
                }
            }
        }
    }
    let mut docs = vec![];
    Docs { out: &mut docs }.visit_file(&file);
    ex.docs = docs;
    // duplicate item names inside one module (two `pub mod x`, two structs of one name)
    for m in &ex.mods {
        let mut seen: BTreeMap<(&str, &str), usize> = BTreeMap::new();
        for (n, k) in &m.items {
            let space = match *k {
                "fn" | "const" => "value",
                _ => "type",
            };
            *seen.entry((n.as_str(), space)).or_insert(0) += 1;
        }
        for ((n, _), c) in seen {
            if c > 1 {
                ex.duplicate_items.push(format!("{}::{n} x{c}", m.path.join("::")));
            }
        }
    }
    Ok(ex)
}

impl Extract {
    pub fn module(&self, path: &[String]) -> Option<&ModInfo> {
        self.mods.iter().find(|m| m.path == path)
    }

    /// Resolve a path written inside `from_module` to the absolute path of an item of this file,
    /// following `use super::*` globs and `self`/`super`/`crate` prefixes.
    pub fn resolve(&self, from_module: &[String], path: &[String]) -> Option<(Vec<String>, &'static str)> {
        if path.is_empty() {
            return None;
        }
        let mut base: Vec<String> = from_module.to_vec();
        let mut segs: &[String] = path;
        let mut explicit = false;
        loop {
            match segs.first().map(|s| s.as_str()) {
                Some("self") => {
                    segs = &segs[1..];
                    explicit = true;
                }
                Some("super") => {
                    base.pop();
                    segs = &segs[1..];
                    explicit = true;
                }
                Some("crate") => {
                    base.clear();
                    segs = &segs[1..];
                    explicit = true;
                }
                _ => break,
            }
        }
        if segs.is_empty() {
            return None;
        }
        // find the module in which the first segment is visible
        let mut cur = base.clone();
        loop {
            if let Some(m) = self.module(&cur) {
                if m.items.iter().any(|(n, _)| *n == segs[0]) {
                    break;
                }
                if !explicit && m.uses_super_glob && !cur.is_empty() {
                    cur.pop();
                    continue;
                }
            }
            return None;
        }
        // walk down
        let mut abs = cur;
        for (i, s) in segs.iter().enumerate() {
            let m = self.module(&abs)?;
            let (_, kind) = m.items.iter().find(|(n, _)| n == s)?;
            abs.push(s.clone());
            if i + 1 < segs.len() {
                if *kind != "mod" {
                    return None;
                }
            } else {
                return Some((abs, kind));
            }
        }
        None
    }

    pub fn struct_at(&self, abs: &[String]) -> Option<&StructInfo> {
        let (name, module) = abs.split_last()?;
        self.structs.iter().find(|s| s.name == *name && s.module == module)
    }

    pub fn alias_at(&self, abs: &[String]) -> Option<&AliasInfo> {
        let (name, module) = abs.split_last()?;
        self.aliases.iter().find(|s| s.name == *name && s.module == module)
    }

    /// Follow aliases: returns either a struct or a primitive / unresolved path
    pub fn resolve_type(&self, from_module: &[String], shape: &TypeShape) -> ResolvedType<'_> {
        let mut module = from_module.to_vec();
        let mut path = shape.path.clone();
        for _ in 0..8 {
            match self.resolve(&module, &path) {
                Some((abs, "struct")) => {
                    return match self.struct_at(&abs) {
                        Some(s) => ResolvedType::Struct(s),
                        None => ResolvedType::Unresolved(path.join("::")),
                    }
                }
                Some((abs, "type")) => {
                    let Some(a) = self.alias_at(&abs) else { return ResolvedType::Unresolved(path.join("::")) };
                    module = a.module.clone();
                    path = a.target.path.clone();
                    continue;
                }
                Some((abs, k)) => return ResolvedType::Other(abs.join("::"), k),
                None => {
                    if path.len() == 1 {
                        return ResolvedType::Primitive(path[0].clone());
                    }
                    return ResolvedType::Unresolved(path.join("::"));
                }
            }
        }
        ResolvedType::Unresolved(path.join("::"))
    }
}

#[derive(Debug)]
pub enum ResolvedType<'a> {
    Struct(&'a StructInfo),
    Primitive(String),
    Other(String, &'static str),
    Unresolved(String),
}

pub fn is_snake_ident(s: &str) -> bool {
    let b = s.trim_start_matches("r#");
    !b.is_empty() && b.chars().all(|c| c.is_ascii_lowercase() || c.is_ascii_digit() || c == '_') && !b.chars().next().unwrap().is_ascii_digit()
}

pub fn is_pascal_ident(s: &str) -> bool {
    // one trailing underscore is the escape for a name the language or the generated code reserves (Self_, Option_)
    let b = s.trim_start_matches("r#");
    let b = b.strip_suffix('_').unwrap_or(b);
    !b.is_empty() && b.chars().next().unwrap().is_ascii_uppercase() && b.chars().all(|c| c.is_ascii_alphanumeric())
}

/// case- and separator-insensitive key of a name
pub fn norm(s: &str) -> String {
    s.trim_start_matches("r#").chars().filter(|c| c.is_alphanumeric()).flat_map(|c| c.to_lowercase()).collect()
}
