//! The repository's own XSD/WSDL inputs as cases (mirrors utils::read_input_file_and_xsd_files_at_path
//! without touching it: the start file plus every sibling *.xsd).

use crate::runner::Case;
use std::path::Path;

pub const REPO: &str = "/repo";

pub fn case_from_path(p: &Path) -> Option<Case> {
    let name = p.file_name()?.to_str()?.to_string();
    let text = std::fs::read_to_string(p).ok()?;
    let mut files = vec![(name.clone(), text)];
    let dir = p.parent().filter(|d| !d.as_os_str().is_empty()).unwrap_or(Path::new("."));
    let mut sibs: Vec<_> = std::fs::read_dir(dir).ok()?.filter_map(|e| e.ok()).map(|e| e.path()).collect();
    sibs.sort();
    for s in sibs {
        if s.is_file() && s.extension().map(|e| e == "xsd").unwrap_or(false) && s.file_name() != p.file_name() {
            if let (Some(n), Ok(t)) = (s.file_name().and_then(|n| n.to_str()), std::fs::read_to_string(&s)) {
                files.push((n.to_string(), t));
            }
        }
    }
    Some(Case { files, start: name })
}

/// (label, path relative to /repo)
pub const REPO_INPUTS: &[(&str, &str)] = &[
    ("simple", "resources/simple/simple.xsd"),
    ("hello", "resources/hello/hello.wsdl"),
    ("tempconverter", "resources/temp_converter/tempconverter.wsdl"),
    ("number_services", "resources/number_services/number_services.wsdl"),
    ("blz", "resources/blz_service/blz.wsdl"),
    ("weather", "resources/weather/weather.wsdl"),
    ("aic_agent", "resources/aic/agent_wsdl.xml"),
    ("aic_version", "resources/aic/version_wsdl.xml"),
    ("aic_workflow", "resources/aic/workflow_wsdl.xml"),
    ("cwmp", "resources/broadband_forum/cwmp-1-2.xsd"),
    ("aacc", "resources/aacc/CustomerWS.wsdl"),
    ("exchange", "resources/exchange/services.wsdl"),
    ("smgr_userimport", "resources/smgr/userimport.xsd"),
    ("smgr_agent", "resources/smgr/agentCommProfile.xsd"),
    ("td_single_complex", "zeep-lib/test-data/single-complex.xsd"),
    ("td_extensions", "zeep-lib/test-data/extensions.xsd"),
    ("td_groups", "zeep-lib/test-data/use-of-groups.xsd"),
    ("td_forward", "zeep-lib/test-data/forward-pointing-type.xsd"),
    ("td_nested_tns", "zeep-lib/test-data/single-simple-with-nested-tns.xsd"),
    ("td_tempconverter", "zeep-lib/test-data/tempconverter.wsdl"),
];

pub fn repo_case(label: &str) -> Option<Case> {
    let (_, rel) = REPO_INPUTS.iter().find(|(l, _)| *l == label)?;
    case_from_path(&Path::new(REPO).join(rel))
}

pub fn all_repo_cases() -> Vec<(String, Case)> {
    REPO_INPUTS
        .iter()
        .filter_map(|(l, rel)| case_from_path(&Path::new(REPO).join(rel)).map(|c| (l.to_string(), c)))
        .collect()
}
