//! E9: the two OS sources of nondeterminism the generator can observe, owned by the harness.
//! Both symbols are defined in this executable, so the statically linked std binds to them:
//!  * `getrandom`  -> std's per-thread SipHash keys (HashMap iteration order)
//!  * `readdir64`  -> directory enumeration order of `std::fs::read_dir`
//! With no override installed both forward to the real implementation.

use std::cell::Cell;
use std::collections::HashMap;
use std::ffi::{c_char, c_void, CStr};
use std::sync::atomic::{AtomicU64, Ordering};
use std::sync::Mutex;

thread_local! {
    /// Some(seed): getrandom on this thread returns a deterministic stream derived from seed
    static FORCED_SEED: Cell<Option<u64>> = const { Cell::new(None) };
}
static GETRANDOM_CALLS: AtomicU64 = AtomicU64::new(0);
static FORCED_CALLS: AtomicU64 = AtomicU64::new(0);

pub fn forced_calls() -> u64 {
    FORCED_CALLS.load(Ordering::SeqCst)
}

fn splitmix(x: &mut u64) -> u64 {
    *x = x.wrapping_add(0x9e3779b97f4a7c15);
    let mut z = *x;
    z = (z ^ (z >> 30)).wrapping_mul(0xbf58476d1ce4e5b9);
    z = (z ^ (z >> 27)).wrapping_mul(0x94d049bb133111eb);
    z ^ (z >> 31)
}

#[no_mangle]
pub unsafe extern "C" fn getrandom(buf: *mut c_void, len: usize, flags: u32) -> isize {
    GETRANDOM_CALLS.fetch_add(1, Ordering::SeqCst);
    if let Some(seed) = FORCED_SEED.with(|c| c.get()) {
        FORCED_CALLS.fetch_add(1, Ordering::SeqCst);
        let mut st = seed;
        let out = std::slice::from_raw_parts_mut(buf as *mut u8, len);
        let mut i = 0;
        while i < len {
            let v = splitmix(&mut st).to_le_bytes();
            let n = (len - i).min(8);
            out[i..i + n].copy_from_slice(&v[..n]);
            i += n;
        }
        return len as isize;
    }
    libc::syscall(libc::SYS_getrandom, buf, len, flags) as isize
}

/// Runs `f` on a fresh thread whose std hash keys derive from `seed`.
pub fn with_hash_seed<T: Send + 'static>(seed: u64, f: impl FnOnce() -> T + Send + 'static) -> std::thread::Result<T> {
    std::thread::Builder::new()
        .stack_size(16 * 1024 * 1024)
        .spawn(move || {
            FORCED_SEED.with(|c| c.set(Some(seed)));
            f()
        })
        .expect("spawn")
        .join()
}

// ------------------------------------------------------------------------------------------------
// readdir64: when an order override is installed for this thread, the entries of each directory
// stream are buffered on first use and handed out in the chosen permutation.

thread_local! {
    static DIR_PERM: Cell<Option<u64>> = const { Cell::new(None) };
}

struct DirBuf {
    entries: Vec<*mut libc::dirent64>,
    next: usize,
}
unsafe impl Send for DirBuf {}

static DIRS: Mutex<Option<HashMap<usize, DirBuf>>> = Mutex::new(None);

type ReaddirFn = unsafe extern "C" fn(*mut libc::DIR) -> *mut libc::dirent64;

unsafe fn real_readdir64() -> ReaddirFn {
    static mut REAL: Option<ReaddirFn> = None;
    if REAL.is_none() {
        let p = libc::dlsym(libc::RTLD_NEXT, b"readdir64\0".as_ptr() as *const c_char);
        assert!(!p.is_null(), "dlsym(readdir64)");
        REAL = Some(std::mem::transmute::<*mut c_void, ReaddirFn>(p));
    }
    REAL.unwrap()
}

fn nth_permutation(n: usize, mut k: u64) -> Vec<usize> {
    let mut items: Vec<usize> = (0..n).collect();
    let mut out = vec![];
    let mut fact: Vec<u64> = vec![1; n + 1];
    for i in 1..=n {
        fact[i] = fact[i - 1].saturating_mul(i as u64);
    }
    k %= fact[n].max(1);
    for i in (0..n).rev() {
        let f = fact[i];
        let idx = (k / f) as usize;
        k %= f;
        out.push(items.remove(idx));
    }
    out
}

#[no_mangle]
pub unsafe extern "C" fn readdir64(dirp: *mut libc::DIR) -> *mut libc::dirent64 {
    let real = real_readdir64();
    let Some(perm) = DIR_PERM.with(|c| c.get()) else {
        return real(dirp);
    };
    let mut g = DIRS.lock().unwrap();
    let map = g.get_or_insert_with(HashMap::new);
    let key = dirp as usize;
    if !map.contains_key(&key) {
        // buffer all entries (copies: the real buffer is reused by libc)
        let mut named: Vec<(Vec<u8>, *mut libc::dirent64)> = vec![];
        loop {
            let e = real(dirp);
            if e.is_null() {
                break;
            }
            let copy = Box::into_raw(Box::new(std::ptr::read(e)));
            let name = CStr::from_ptr((*copy).d_name.as_ptr()).to_bytes().to_vec();
            named.push((name, copy));
        }
        // canonical order first (by name), then the k-th permutation of the non-dot entries
        named.sort_by(|a, b| a.0.cmp(&b.0));
        let (dots, rest): (Vec<_>, Vec<_>) = named.into_iter().partition(|(n, _)| n == b"." || n == b"..");
        let p = nth_permutation(rest.len(), perm);
        let mut entries: Vec<*mut libc::dirent64> = dots.into_iter().map(|x| x.1).collect();
        for i in p {
            entries.push(rest[i].1);
        }
        map.insert(key, DirBuf { entries, next: 0 });
    }
    let b = map.get_mut(&key).unwrap();
    if b.next < b.entries.len() {
        b.next += 1;
        b.entries[b.next - 1]
    } else {
        // end of stream: forget the buffer (entries leak a few bytes per directory; harness only)
        map.remove(&key);
        std::ptr::null_mut()
    }
}

/// Runs `f` with directory enumeration order fixed to the `perm`-th permutation of the sorted names.
pub fn with_dir_order<T>(perm: u64, f: impl FnOnce() -> T) -> T {
    DIR_PERM.with(|c| c.set(Some(perm)));
    let r = f();
    DIR_PERM.with(|c| c.set(None));
    r
}

/// iteration order of a k-key canary map built on the current thread (same RandomState source)
pub fn canary_order(k: usize) -> Vec<usize> {
    let mut m: std::collections::HashMap<String, usize> = std::collections::HashMap::new();
    for i in 0..k {
        m.insert(format!("key{i}"), i);
    }
    m.values().copied().collect()
}

pub fn selftest() -> Result<String, String> {
    // 1. same seed twice -> same order; seeds sweep -> several orders
    let a = with_hash_seed(7, || canary_order(4)).map_err(|_| "thread panicked")?;
    let b = with_hash_seed(7, || canary_order(4)).map_err(|_| "thread panicked")?;
    if a != b {
        return Err(format!("hash-seed interposer is not effective: same seed gave {a:?} and {b:?}"));
    }
    let mut orders = std::collections::BTreeSet::new();
    for s in 0..256u64 {
        orders.insert(with_hash_seed(s, || canary_order(4)).map_err(|_| "thread panicked")?);
    }
    if orders.len() < 12 {
        return Err(format!("hash-seed interposer: only {} of 24 orders seen over 256 seeds", orders.len()));
    }
    // 2. directory order
    let dir = std::path::Path::new("/verif/work/selftest-dir");
    let _ = std::fs::remove_dir_all(dir);
    std::fs::create_dir_all(dir).map_err(|e| e.to_string())?;
    for n in ["a.xsd", "b.xsd", "c.xsd"] {
        std::fs::write(dir.join(n), "x").map_err(|e| e.to_string())?;
    }
    let mut seen = std::collections::BTreeSet::new();
    for p in 0..6u64 {
        let names: Vec<String> = with_dir_order(p, || std::fs::read_dir(dir).unwrap().map(|e| e.unwrap().file_name().to_string_lossy().to_string()).collect());
        seen.insert(names);
    }
    let _ = std::fs::remove_dir_all(dir);
    if seen.len() != 6 {
        return Err(format!("readdir64 interposer: {} of 6 orders seen", seen.len()));
    }
    Ok(format!("hash orders seen over 256 seeds: {}/24; directory orders: 6/6; forced getrandom calls: {}", orders.len(), forced_calls()))
}
