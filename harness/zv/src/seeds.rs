//! Seed schema sets (DESIGN §4 "Common seed S0", the WSDL seed, the kitchen-sink corpus documents).

use crate::schema::*;

pub const NS_A: &str = "http://zv.example/alpha";
pub const NS_B: &str = "http://zv.example/beta";
pub const NS_W: &str = "http://zv.example/wsvc";

pub fn el(name: &str, ty: TypeRef) -> Particle {
    Particle::Elem(Elem::new(name, ty))
}

pub fn el_occ(name: &str, ty: TypeRef, min: u32, max: Max) -> Particle {
    Particle::Elem(Elem::new(name, ty).occ(min, max))
}

pub fn complex(name: &str, items: Vec<Particle>) -> Comp {
    Comp::Complex(ComplexType { name: name.into(), seq: Some(Seq::of(items)), ..Default::default() })
}

pub fn simple(name: &str, base: &str, facets: Vec<(&str, &str)>) -> Comp {
    Comp::Simple(SimpleType {
        name: name.into(),
        doc: None,
        xmlns: vec![],
        base: TypeRef::b(base),
        facets: facets.into_iter().map(|(k, v)| Facet { kind: k.into(), value: v.into() }).collect(),
        facets_as_attrs: false,
    })
}

pub fn anon_element(name: &str, items: Vec<Particle>) -> Comp {
    Comp::Element(GlobalElement {
        name: name.into(),
        doc: None,
        xmlns: vec![],
        kind: GlobalKind::Anonymous { seq: Some(Seq::of(items)), attrs: vec![] },
    })
}

pub fn typed_element(name: &str, ty: TypeRef) -> Comp {
    Comp::Element(GlobalElement { name: name.into(), doc: None, xmlns: vec![], kind: GlobalKind::Typed(ty) })
}

/// file `a.xsd` (namespace A, prefix `a`) importing `b.xsd` (namespace B, prefix `b`)
pub fn s0() -> SchemaSet {
    let a = XsdFile {
        name: "a.xsd".into(),
        tns: NS_A.into(),
        prefixes: vec![("a".into(), NS_A.into()), ("b".into(), NS_B.into())],
        default_ns: None,
        imports: vec![Import { ns: NS_B.into(), loc: Some("b.xsd".into()) }],
        comps: vec![
            complex("Leaf", vec![el("LeafValue", TypeRef::b("string"))]),
            simple("Code", "string", vec![("maxLength", "5")]),
            complex("Holder", vec![]),
        ],
    };
    let b = XsdFile {
        name: "b.xsd".into(),
        tns: NS_B.into(),
        prefixes: vec![("b".into(), NS_B.into())],
        default_ns: None,
        imports: vec![],
        comps: vec![complex("LeafB", vec![el("LeafBValue", TypeRef::b("string"))]), simple("CodeB", "string", vec![("maxLength", "5")])],
    };
    SchemaSet { files: vec![a, b], wsdl: None, start: "a.xsd".into(), xs_is_default_namespace: false }
}

/// single-file seed
pub fn s1() -> SchemaSet {
    let mut s = s0();
    s.files.truncate(1);
    s.files[0].imports.clear();
    s.files[0].prefixes.truncate(1);
    s
}

pub fn holder_mut(s: &mut SchemaSet) -> &mut ComplexType {
    for c in s.files[0].comps.iter_mut() {
        if let Comp::Complex(ct) = c {
            if ct.name == "Holder" {
                return ct;
            }
        }
    }
    panic!("no Holder");
}

/// WSDL seed: one service, one operation `GetThing` with input and output, anonymous-typed global
/// elements in the WSDL's namespace.
pub fn w0() -> SchemaSet {
    let schema = XsdFile {
        name: "(inline)".into(),
        tns: NS_W.into(),
        prefixes: vec![],
        default_ns: None,
        imports: vec![],
        comps: vec![
            anon_element("GetThing", vec![el("ThingId", TypeRef::b("string"))]),
            anon_element("GetThingResponse", vec![el("ThingName", TypeRef::b("string")), el_occ("Count", TypeRef::b("int"), 0, Max::N(1))]),
        ],
    };
    let w = Wsdl {
        name: "svc.wsdl".into(),
        tns: NS_W.into(),
        prefixes: vec![],
        schema,
        messages: vec![
            Message { name: "GetThingIn".into(), parts: vec![Part { name: "parameters".into(), element: QName::new(NS_W, "GetThing") }] },
            Message { name: "GetThingOut".into(), parts: vec![Part { name: "parameters".into(), element: QName::new(NS_W, "GetThingResponse") }] },
        ],
        port_type: "ThingPort".into(),
        pt_ops: vec![PtOp { name: "GetThing".into(), input: "GetThingIn".into(), output: Some("GetThingOut".into()) }],
        binding: "ThingBinding".into(),
        b_ops: vec![BOp {
            name: "GetThing".into(),
            action: Some("http://zv.example/wsvc/GetThing".into()),
            input: BIo::default(),
            output: Some(BIo::default()),
        }],
        service: "ThingService".into(),
        port: "ThingPortImpl".into(),
        default_ns_style: false,
        address: "http://127.0.0.1:9/thing".into(),
    };
    SchemaSet { files: vec![], wsdl: Some(w), start: "svc.wsdl".into(), xs_is_default_namespace: false }
}

/// Adds an operation to a WSDL seed: global elements `<Name>` / `<Name>Response`, messages, port
/// type and binding entries. `headers` = number of header parts on the input.
pub fn add_operation(s: &mut SchemaSet, name: &str, with_output: bool, in_headers: usize, out_headers: usize, explicit_parts: bool, action: bool) {
    let w = s.wsdl.as_mut().expect("wsdl");
    let tns = w.tns.clone();
    let req_el = name.to_string();
    let resp_el = format!("{name}Response");
    w.schema.comps.push(anon_element(&req_el, vec![el("Arg", TypeRef::b("string"))]));
    let mut in_parts = vec![Part { name: "parameters".into(), element: QName::new(&tns, &req_el) }];
    let mut in_h = vec![];
    for i in 0..in_headers {
        let hn = format!("{name}Hdr{i}");
        w.schema.comps.push(anon_element(&hn, vec![el("Token", TypeRef::b("string"))]));
        in_parts.push(Part { name: format!("hdr{i}"), element: QName::new(&tns, &hn) });
        in_h.push((format!("{name}In"), format!("hdr{i}")));
    }
    w.messages.push(Message { name: format!("{name}In"), parts: in_parts });
    let mut out = None;
    let mut out_msg = None;
    if with_output {
        w.schema.comps.push(anon_element(&resp_el, vec![el("Result", TypeRef::b("string"))]));
        let mut out_parts = vec![Part { name: "parameters".into(), element: QName::new(&tns, &resp_el) }];
        let mut out_h = vec![];
        for i in 0..out_headers {
            let hn = format!("{name}RespHdr{i}");
            w.schema.comps.push(anon_element(&hn, vec![el("Info", TypeRef::b("string"))]));
            out_parts.push(Part { name: format!("rhdr{i}"), element: QName::new(&tns, &hn) });
            out_h.push((format!("{name}Out"), format!("rhdr{i}")));
        }
        w.messages.push(Message { name: format!("{name}Out"), parts: out_parts });
        out_msg = Some(format!("{name}Out"));
        out = Some(BIo { headers: out_h, parts: if explicit_parts || out_headers > 0 { Some("parameters".into()) } else { None } });
    }
    w.pt_ops.push(PtOp { name: name.into(), input: format!("{name}In"), output: out_msg });
    w.b_ops.push(BOp {
        name: name.into(),
        action: if action { Some(format!("{tns}/{name}")) } else { None },
        input: BIo { headers: in_h, parts: if explicit_parts || in_headers > 0 { Some("parameters".into()) } else { None } },
        output: out,
    });
}

/// Kitchen-sink XSD pair: every production of §2 at least once, documented (multi-line) types.
pub fn kitchen_xsd() -> SchemaSet {
    let mut s = s0();
    let a = &mut s.files[0];
    a.comps.push(Comp::Complex(ComplexType {
        name: "Documented".into(),
        doc: Some("First line of the documentation\nsecond line with \"quotes\" and a backslash \\\n  third line, indented".into()),
        xmlns: vec![],
        base: None,
        seq: Some(Seq {
            min: 0,
            max: Max::Unbounded,
            items: vec![
                el("Plain", TypeRef::b("string")),
                el_occ("OptLong", TypeRef::b("long"), 0, Max::N(1)),
                el_occ("Many", TypeRef::b("int"), 0, Max::Unbounded),
                el_occ("Three", TypeRef::b("boolean"), 1, Max::N(3)),
                Particle::Seq(Seq::of(vec![el("Inner", TypeRef::n(NS_A, "Leaf")), el("InnerB", TypeRef::n(NS_B, "LeafB"))])),
                Particle::Choice(vec![el("Left", TypeRef::n(NS_A, "Code")), el("Right", TypeRef::n(NS_B, "CodeB"))]),
                el("Tail", TypeRef::b("dateTime")),
            ],
            doc: None,
        }),
        attrs: vec![
            Attr { name: "id".into(), ty: TypeRef::b("string"), required: true, value_constraint: None },
            Attr { name: "rank".into(), ty: TypeRef::b("unsignedByte"), required: false, value_constraint: None },
            Attr { name: "code".into(), ty: TypeRef::n(NS_A, "Code"), required: false, value_constraint: None },
        ],
    }));
    a.comps.push(Comp::Complex(ComplexType {
        name: "Derived".into(),
        doc: Some("Derived type".into()),
        xmlns: vec![],
        base: Some(QName::new(NS_A, "Documented")),
        seq: Some(Seq::of(vec![el("Extra", TypeRef::b("double")), el_occ("ExtraB", TypeRef::n(NS_B, "LeafB"), 0, Max::N(1))])),
        attrs: vec![Attr { name: "extraAttr".into(), ty: TypeRef::b("int"), required: false, value_constraint: None }],
    }));
    a.comps.push(Comp::Simple(SimpleType {
        name: "Ranged".into(),
        doc: Some("A ranged integer\nwith two lines".into()),
        xmlns: vec![],
        base: TypeRef::b("int"),
        facets: vec![
            Facet { kind: "minInclusive".into(), value: "1".into() },
            Facet { kind: "maxInclusive".into(), value: "10".into() },
        ],
        facets_as_attrs: false,
    }));
    a.comps.push(Comp::Simple(SimpleType {
        name: "Bounded".into(),
        doc: None,
        xmlns: vec![],
        base: TypeRef::b("long"),
        facets: vec![
            Facet { kind: "minExclusive".into(), value: "0".into() },
            Facet { kind: "maxExclusive".into(), value: "100".into() },
        ],
        facets_as_attrs: false,
    }));
    a.comps.push(simple("Sized", "string", vec![("length", "3")]));
    a.comps.push(simple("MinMaxLen", "string", vec![("minLength", "1"), ("maxLength", "4")]));
    a.comps.push(simple("Color", "string", vec![("enumeration", "red"), ("enumeration", "green"), ("enumeration", "blue")]));
    a.comps.push(Comp::Simple(SimpleType {
        name: "DerivedCode".into(),
        doc: None,
        xmlns: vec![],
        base: TypeRef::n(NS_A, "Code"),
        facets: vec![Facet { kind: "minLength".into(), value: "2".into() }],
        facets_as_attrs: false,
    }));
    a.comps.push(Comp::Element(GlobalElement {
        name: "Envelope".into(),
        doc: Some("Global element with an anonymous type".into()),
        xmlns: vec![],
        kind: GlobalKind::Anonymous {
            seq: Some(Seq::of(vec![el("Doc", TypeRef::n(NS_A, "Documented")), Particle::Ref(ElemRef { target: QName::new(NS_A, "TypedGlobal"), min: 0, max: Max::N(1), xmlns: vec![] })])),
            attrs: vec![Attr { name: "version".into(), ty: TypeRef::b("string"), required: false, value_constraint: None }],
        },
    }));
    a.comps.push(typed_element("TypedGlobal", TypeRef::n(NS_A, "Leaf")));
    a.comps.push(typed_element("BuiltinGlobal", TypeRef::b("string")));
    let b = &mut s.files[1];
    b.comps.push(Comp::Complex(ComplexType {
        name: "WithAttrsB".into(),
        doc: Some("B side".into()),
        xmlns: vec![],
        base: None,
        seq: None,
        attrs: vec![Attr { name: "flag".into(), ty: TypeRef::b("boolean"), required: true, value_constraint: None }],
    }));
    s
}

/// Kitchen-sink WSDL: three operations (in+out with action, one-way, headers both ways), types in
/// the WSDL namespace and in an imported file.
pub fn kitchen_wsdl() -> SchemaSet {
    let mut s = w0();
    add_operation(&mut s, "SetThing", false, 0, 0, false, true);
    add_operation(&mut s, "listThings", true, 2, 1, true, false);
    {
        let w = s.wsdl.as_mut().unwrap();
        w.schema.comps.push(Comp::Complex(ComplexType {
            name: "ThingInfo".into(),
            doc: Some("Info about a thing\nover two lines".into()),
            xmlns: vec![],
            base: None,
            seq: Some(Seq::of(vec![el("Label", TypeRef::b("string")), el_occ("Weight", TypeRef::n(NS_W, "Weight"), 0, Max::N(1))])),
            attrs: vec![Attr { name: "id".into(), ty: TypeRef::b("string"), required: true, value_constraint: None }],
        }));
        w.schema.comps.push(Comp::Simple(SimpleType {
            name: "Weight".into(),
            doc: Some("Weight in grams".into()),
            xmlns: vec![],
            base: TypeRef::b("int"),
            facets: vec![Facet { kind: "minInclusive".into(), value: "0".into() }],
            facets_as_attrs: false,
        }));
    }
    s
}

pub fn by_name(n: &str) -> SchemaSet {
    match n {
        "s0" => s0(),
        "s1" => s1(),
        "w0" => w0(),
        "kitchen" | "kitchen_xsd" => kitchen_xsd(),
        "kitchen_wsdl" => kitchen_wsdl(),
        _ => panic!("unknown seed {n}"),
    }
}
