//! E5: the reference model, written from the XSD / WSDL rules of DESIGN §3.6 (never from zeep):
//! from a `SchemaSet` the expected API (which structs, in which namespace, which members, wrapper,
//! element type), and the comparison of an extracted item model with it.

use crate::extract::{is_pascal_ident, is_snake_ident, norm, Extract, ResolvedType, StructInfo, Wrapper};
use crate::report::Violation;
use crate::schema::*;
use std::collections::{BTreeMap, BTreeSet};

#[derive(Clone, Debug, PartialEq)]
pub enum CompKind {
    Complex,
    Simple,
    AnonElement,
    TypedElement,
}

impl CompKind {
    pub fn label(&self) -> &'static str {
        match self {
            CompKind::Complex => "complexType",
            CompKind::Simple => "simpleType",
            CompKind::AnonElement => "anonymous-element",
            CompKind::TypedElement => "typed-element",
        }
    }
}

#[derive(Clone, Debug, PartialEq)]
pub enum ExpTy {
    /// (rust primitive, xsd builtin)
    Builtin(String, String),
    /// named complex or simple type
    Named(String, String),
    /// reference to a global element
    ElemRef(String, String),
    Unresolvable(String),
}

impl ExpTy {
    pub fn describe(&self) -> String {
        match self {
            ExpTy::Builtin(r, x) => format!("xs:{x}->{r}"),
            ExpTy::Named(ns, l) => format!("type {{{ns}}}{l}"),
            ExpTy::ElemRef(ns, l) => format!("element {{{ns}}}{l}"),
            ExpTy::Unresolvable(s) => format!("unresolvable {s}"),
        }
    }
}

#[derive(Clone, Debug)]
pub struct ExpMember {
    pub wire: String,
    /// namespace of the element on the wire (None for attributes: unqualified)
    pub ns: Option<String>,
    pub is_attr: bool,
    pub wrapper: Wrapper,
    pub ty: ExpTy,
    /// local features, the vocabulary of violation contexts
    pub kind: &'static str,     // element | attribute | ref
    pub position: &'static str, // sequence | nested | after-nested | choice | attribute
    pub origin: &'static str,   // own | inherited
    pub min: u32,
    pub max: String,
    pub seq_min: u32,
    pub seq_max: String,
    pub required_attr: bool,
}

#[derive(Clone, Debug)]
pub struct ExpComp {
    pub ns: String,
    pub name: String,
    pub kind: CompKind,
    /// start | imported | wsdl
    pub role: String,
    pub file: String,
    pub members: Vec<ExpMember>,
    /// for typed elements: the type they alias
    pub alias_of: Option<ExpTy>,
    /// simple types: base + facets along the derivation chain (outermost first)
    pub simple_base: Option<ExpTy>,
}

pub struct RefModel {
    pub comps: Vec<ExpComp>,
    pub namespaces: Vec<String>,
}

struct Index<'a> {
    types: BTreeMap<(String, String), (&'a Comp, &'a XsdFile)>,
    elems: BTreeMap<(String, String), (&'a GlobalElement, &'a XsdFile)>,
}

fn index(set: &SchemaSet) -> Index<'_> {
    let mut ix = Index { types: BTreeMap::new(), elems: BTreeMap::new() };
    for f in set.schemas() {
        for c in &f.comps {
            match c {
                Comp::Complex(ct) => {
                    ix.types.entry((f.tns.clone(), ct.name.clone())).or_insert((c, f));
                }
                Comp::Simple(st) => {
                    ix.types.entry((f.tns.clone(), st.name.clone())).or_insert((c, f));
                }
                Comp::Element(ge) => {
                    ix.elems.entry((f.tns.clone(), ge.name.clone())).or_insert((ge, f));
                }
            }
        }
    }
    ix
}

fn exp_ty(t: &TypeRef, ix: &Index) -> ExpTy {
    match t {
        TypeRef::Builtin(b) => match builtin_rust(b) {
            Some(r) => ExpTy::Builtin(r.to_string(), b.clone()),
            None => ExpTy::Unresolvable(format!("xs:{b}")),
        },
        TypeRef::Named(q) => {
            if ix.types.contains_key(&(q.ns.clone(), q.local.clone())) {
                ExpTy::Named(q.ns.clone(), q.local.clone())
            } else {
                ExpTy::Unresolvable(format!("{{{}}}{}", q.ns, q.local))
            }
        }
    }
}

#[derive(Clone, Copy)]
struct Occ {
    opt: bool,
    rep: bool,
    seq_min: u32,
    seq_max: Max,
}

fn flatten(items: &[Particle], tns: &str, ix: &Index, occ: Occ, position: &'static str, in_choice: bool, out: &mut Vec<ExpMember>) {
    let mut seen_nested = false;
    for p in items {
        let pos = if in_choice {
            "choice"
        } else if position == "sequence" && seen_nested {
            "after-nested"
        } else {
            position
        };
        match p {
            Particle::Elem(e) => {
                let wrapper = if e.max.repeats() || occ.rep {
                    Wrapper::Vec
                } else if e.min == 0 || occ.opt || in_choice {
                    Wrapper::Option
                } else {
                    Wrapper::Bare
                };
                out.push(ExpMember {
                    wire: e.name.clone(),
                    ns: Some(tns.to_string()),
                    is_attr: false,
                    wrapper,
                    ty: exp_ty(&e.ty, ix),
                    kind: "element",
                    position: pos,
                    origin: "own",
                    min: e.min,
                    max: e.max.label(),
                    seq_min: occ.seq_min,
                    seq_max: occ.seq_max.label(),
                    required_attr: false,
                });
            }
            Particle::Ref(r) => {
                let wrapper = if r.max.repeats() || occ.rep {
                    Wrapper::Vec
                } else if r.min == 0 || occ.opt || in_choice {
                    Wrapper::Option
                } else {
                    Wrapper::Bare
                };
                let ty = if ix.elems.contains_key(&(r.target.ns.clone(), r.target.local.clone())) {
                    ExpTy::ElemRef(r.target.ns.clone(), r.target.local.clone())
                } else {
                    ExpTy::Unresolvable(format!("element {{{}}}{}", r.target.ns, r.target.local))
                };
                out.push(ExpMember {
                    wire: r.target.local.clone(),
                    ns: Some(r.target.ns.clone()),
                    is_attr: false,
                    wrapper,
                    ty,
                    kind: "ref",
                    position: pos,
                    origin: "own",
                    min: r.min,
                    max: r.max.label(),
                    seq_min: occ.seq_min,
                    seq_max: occ.seq_max.label(),
                    required_attr: false,
                });
            }
            Particle::Seq(s) => {
                let o = Occ { opt: occ.opt || s.min == 0, rep: occ.rep || s.max.repeats(), seq_min: s.min, seq_max: s.max };
                flatten(&s.items, tns, ix, o, "nested", in_choice, out);
                seen_nested = true;
            }
            Particle::Choice(cs) => {
                flatten(cs, tns, ix, occ, "choice", true, out);
            }
        }
    }
}

fn own_members(seq: &Option<Seq>, attrs: &[Attr], tns: &str, ix: &Index) -> Vec<ExpMember> {
    let mut out = vec![];
    if let Some(s) = seq {
        let o = Occ { opt: s.min == 0, rep: s.max.repeats(), seq_min: s.min, seq_max: s.max };
        flatten(&s.items, tns, ix, o, "sequence", false, &mut out);
    }
    for a in attrs {
        out.push(ExpMember {
            wire: a.name.clone(),
            ns: None,
            is_attr: true,
            wrapper: if a.required { Wrapper::Bare } else { Wrapper::Option },
            ty: exp_ty(&a.ty, ix),
            kind: "attribute",
            position: "attribute",
            origin: "own",
            min: if a.required { 1 } else { 0 },
            max: "1".into(),
            seq_min: 1,
            seq_max: "1".into(),
            required_attr: a.required,
        });
    }
    out
}

fn complex_members(ct: &ComplexType, tns: &str, ix: &Index, depth: usize) -> Vec<ExpMember> {
    let mut out = vec![];
    if let Some(b) = &ct.base {
        if depth < 64 {
            if let Some((Comp::Complex(bt), bf)) = ix.types.get(&(b.ns.clone(), b.local.clone())).map(|(c, f)| (*c, *f)) {
                for mut m in complex_members(bt, &bf.tns, ix, depth + 1) {
                    m.origin = "inherited";
                    out.push(m);
                }
            }
        }
    }
    out.extend(own_members(&ct.seq, &ct.attrs, tns, ix));
    out
}

impl RefModel {
    pub fn build(set: &SchemaSet) -> RefModel {
        let ix = index(set);
        let mut comps = vec![];
        let mut namespaces: Vec<String> = vec![];
        for f in set.schemas() {
            if !namespaces.contains(&f.tns) {
                namespaces.push(f.tns.clone());
            }
            let role = if set.wsdl.as_ref().map(|w| std::ptr::eq(&w.schema, f)).unwrap_or(false) {
                "wsdl"
            } else if f.name == set.start {
                "start"
            } else {
                "imported"
            };
            for c in &f.comps {
                match c {
                    Comp::Complex(ct) => comps.push(ExpComp {
                        ns: f.tns.clone(),
                        name: ct.name.clone(),
                        kind: CompKind::Complex,
                        role: role.into(),
                        file: f.name.clone(),
                        members: complex_members(ct, &f.tns, &ix, 0),
                        alias_of: None,
                        simple_base: None,
                    }),
                    Comp::Simple(st) => comps.push(ExpComp {
                        ns: f.tns.clone(),
                        name: st.name.clone(),
                        kind: CompKind::Simple,
                        role: role.into(),
                        file: f.name.clone(),
                        members: vec![],
                        alias_of: None,
                        simple_base: Some(exp_ty(&st.base, &ix)),
                    }),
                    Comp::Element(ge) => match &ge.kind {
                        GlobalKind::Anonymous { seq, attrs } => comps.push(ExpComp {
                            ns: f.tns.clone(),
                            name: ge.name.clone(),
                            kind: CompKind::AnonElement,
                            role: role.into(),
                            file: f.name.clone(),
                            members: own_members(seq, attrs, &f.tns, &ix),
                            alias_of: None,
                            simple_base: None,
                        }),
                        GlobalKind::Typed(t) => comps.push(ExpComp {
                            ns: f.tns.clone(),
                            name: ge.name.clone(),
                            kind: CompKind::TypedElement,
                            role: role.into(),
                            file: f.name.clone(),
                            members: vec![],
                            alias_of: Some(exp_ty(t, &ix)),
                            simple_base: None,
                        }),
                    },
                }
            }
        }
        RefModel { comps, namespaces }
    }

    pub fn comp(&self, ns: &str, name: &str, type_space: bool) -> Option<&ExpComp> {
        self.comps.iter().find(|c| c.ns == ns && c.name == name && (matches!(c.kind, CompKind::Complex | CompKind::Simple) == type_space))
    }
}

/// the module (path) in which structs of namespace `uri` live, discovered through the structs
pub fn modules_of_ns<'a>(ex: &'a Extract, uri: &str) -> Vec<Vec<String>> {
    let mut v: Vec<Vec<String>> = vec![];
    for s in &ex.structs {
        if s.ns_uri() == Some(uri) && !s.module.is_empty() && !v.contains(&s.module) {
            v.push(s.module.clone());
        }
    }
    v
}

/// locate the struct generated for a component: by namespace (of the struct's own declaration)
/// and name (its `rename`, or its identifier up to case and separators)
pub fn find_struct<'a>(ex: &'a Extract, ns: &str, name: &str) -> Vec<&'a StructInfo> {
    ex.structs
        .iter()
        .filter(|s| s.ns_uri() == Some(ns) && !s.module.is_empty())
        .filter(|s| s.ya.rename.as_deref() == Some(name) || norm(&s.name) == norm(name))
        .collect()
}

pub struct ApiCheck<'a> {
    pub property: &'a str,
    pub scope: &'a str,
    pub depth: u32,
    /// also require every element member's prefix to be bound (in the struct's own namespaces
    /// map) to the namespace of the schema that declared the member
    pub member_namespaces: bool,
}

fn name_style(n: &str) -> &'static str {
    if crate::names::is_keyword(n) || crate::names::is_keyword(&n.to_lowercase()) {
        "keyword"
    } else if n.contains('-') {
        "kebab"
    } else if n.contains('_') && n.chars().any(|c| c.is_ascii_lowercase()) {
        "snake"
    } else if n.chars().all(|c| c.is_ascii_uppercase() || c.is_ascii_digit() || c == '_') {
        "upper"
    } else if n.chars().next().map(|c| c.is_ascii_lowercase()).unwrap_or(false) {
        "camel"
    } else {
        "pascal"
    }
}

fn member_ctx(v: Violation, comp: &ExpComp, m: &ExpMember) -> Violation {
    v.ctx("member.kind", m.kind)
        .ctx("member.position", m.position)
        .ctx("member.origin", m.origin)
        .ctx("component.kind", comp.kind.label())
        .ctx("component.role", &comp.role)
}

/// Compare the extracted item model with the reference API. Returns violations (clauses api.*).
pub fn compare_api(ex: &Extract, model: &RefModel, chk: &ApiCheck, only: Option<&dyn Fn(&ExpComp) -> bool>) -> Vec<Violation> {
    let mut vs = vec![];
    let v = |clause: &str| Violation::new(chk.property, clause, chk.scope).depth(chk.depth);
    let mut matched_structs: BTreeSet<Vec<String>> = BTreeSet::new();
    for comp in &model.comps {
        if let Some(f) = only {
            if !f(comp) {
                continue;
            }
        }
        if comp.kind == CompKind::TypedElement {
            continue; // no struct of its own is required (alias or nothing); refs are judged at the use site
        }
        let found = find_struct(ex, &comp.ns, &comp.name);
        let base = |clause: &str| v(clause).ctx("component.kind", comp.kind.label()).ctx("component.role", &comp.role).ctx("name.style", name_style(&comp.name));
        if found.is_empty() {
            // is there a struct of that name in another namespace's module?
            let elsewhere: Vec<&StructInfo> = ex.structs.iter().filter(|s| !s.module.is_empty() && (s.ya.rename.as_deref() == Some(&comp.name) || norm(&s.name) == norm(&comp.name))).collect();
            if let Some(e) = elsewhere.first() {
                vs.push(base("api.struct.module").exp(format!("struct for {{{}}}{} declared under that namespace", comp.ns, comp.name)).act(format!("found {} declaring namespace {:?}", e.path().join("::"), e.ns_uri())));
            } else {
                vs.push(base("api.struct.missing").exp(format!("one pub struct for {} {{{}}}{}", comp.kind.label(), comp.ns, comp.name)).act("none"));
            }
            continue;
        }
        if found.len() > 1 {
            vs.push(base("api.struct.extra").exp(format!("exactly one struct for {{{}}}{}", comp.ns, comp.name)).act(format!("{} structs: {:?}", found.len(), found.iter().map(|s| s.path().join("::")).collect::<Vec<_>>())));
        }
        let st = found[0];
        matched_structs.insert(st.path());
        if !is_pascal_ident(&st.name) || !st.is_pub {
            vs.push(base("api.struct.name").ctx("position", "type").exp("a public PascalCase identifier").act(format!("{}{}", if st.is_pub { "" } else { "(private) " }, st.name)));
        }
        // all structs of one namespace in one module
        let mods = modules_of_ns(ex, &comp.ns);
        if mods.len() > 1 {
            vs.push(base("api.struct.module").exp("one module per target namespace").act(format!("namespace {} spread over modules {:?}", comp.ns, mods)));
        }
        if comp.kind == CompKind::Simple {
            continue;
        }
        // members
        let exp = &comp.members;
        let act = &st.fields;
        // index actual fields by wire name (+attribute flag)
        let wire_of = |f: &crate::extract::FieldInfo| f.ya.rename.clone().unwrap_or_else(|| f.bare_ident.clone());
        let mut used = vec![false; act.len()];
        let mut order: Vec<usize> = vec![];
        for m in exp {
            let pos = act.iter().enumerate().position(|(i, f)| !used[i] && wire_of(f) == m.wire && f.ya.attribute == m.is_attr);
            let pos = pos.or_else(|| act.iter().enumerate().position(|(i, f)| !used[i] && wire_of(f) == m.wire));
            let Some(i) = pos else {
                vs.push(member_ctx(v("api.member.missing"), comp, m).exp(format!("member `{}` ({}) in struct {}", m.wire, m.ty.describe(), st.name)).act("absent"));
                continue;
            };
            used[i] = true;
            order.push(i);
            let f = &act[i];
            if f.ya.attribute != m.is_attr {
                vs.push(member_ctx(v("api.member.kind"), comp, m).exp(if m.is_attr { "attribute = true" } else { "an element member" }).act(if f.ya.attribute { "attribute = true" } else { "an element member" }));
            }
            if !f.is_pub || !is_snake_ident(&f.ident) {
                vs.push(member_ctx(v("api.ident"), comp, m).ctx("position", "field").ctx("name.style", name_style(&m.wire)).exp("a public snake_case identifier").act(&f.ident));
            }
            if chk.member_namespaces && !m.is_attr {
                let bound = f.ya.prefix.as_deref().and_then(|p| st.prefix_uri(p));
                if bound != m.ns.as_deref() {
                    vs.push(
                        member_ctx(v("ns.binding"), comp, m)
                            .ctx("member.namespace", if m.ns.as_deref() == Some(comp.ns.as_str()) { "same-as-struct" } else { "other" })
                            .exp(format!("prefix of `{}` bound to {:?} in the struct's namespaces map", m.wire, m.ns))
                            .act(format!("prefix {:?} bound to {:?}; struct declares {:?}", f.ya.prefix, bound, st.ya.namespaces)),
                    );
                }
            }
            if f.ty.wrapper != m.wrapper {
                vs.push(
                    member_ctx(v("api.member.wrapper"), comp, m)
                        .ctx("minOccurs", m.min)
                        .ctx("maxOccurs", if m.max == "1" || m.max == "unbounded" { m.max.clone() } else { "n>1".into() })
                        .ctx("seq.minOccurs", m.seq_min)
                        .ctx("seq.maxOccurs", if m.seq_max == "1" || m.seq_max == "unbounded" { m.seq_max.clone() } else { "n>1".into() })
                        .ctx("use", if m.is_attr { if m.required_attr { "required" } else { "optional" } } else { "-" })
                        .exp(m.wrapper.label())
                        .act(format!("{} ({})", f.ty.wrapper.label(), f.ty.text)),
                );
            }
            // element type
            let resolved = ex.resolve_type(&st.module, &f.ty);
            match &m.ty {
                ExpTy::Builtin(r, x) => {
                    let ok = matches!(&resolved, ResolvedType::Primitive(p) if p == r);
                    if !ok {
                        vs.push(member_ctx(v("api.member.type"), comp, m).ctx("type", format!("xs:{x}")).exp(r).act(&f.ty.text));
                    }
                }
                ExpTy::Named(ns, local) => {
                    let targets = find_struct(ex, ns, local);
                    let ok = match (&resolved, targets.first()) {
                        (ResolvedType::Struct(s), Some(t)) => s.path() == t.path(),
                        _ => false,
                    };
                    if !ok {
                        let tk = model.comp(ns, local, true).map(|c| c.kind.label()).unwrap_or("?");
                        let same_ns = *ns == comp.ns;
                        vs.push(
                            member_ctx(v("api.member.type"), comp, m)
                                .ctx("type", format!("named {tk}"))
                                .ctx("type.namespace", if same_ns { "same" } else { "other" })
                                .exp(format!("the struct generated for {{{ns}}}{local}"))
                                .act(format!("{} -> {}", f.ty.text, describe_resolved(&resolved))),
                        );
                    }
                }
                ExpTy::ElemRef(ns, local) => {
                    // must lead (through aliases) to the struct / builtin of the referenced element
                    let target = model.comps.iter().find(|c| c.ns == *ns && c.name == *local && matches!(c.kind, CompKind::AnonElement | CompKind::TypedElement));
                    let ok = match target {
                        Some(t) if t.kind == CompKind::AnonElement => {
                            let ts = find_struct(ex, ns, local);
                            matches!((&resolved, ts.first()), (ResolvedType::Struct(s), Some(t)) if s.path() == t.path())
                        }
                        Some(t) => match &t.alias_of {
                            Some(ExpTy::Builtin(r, _)) => matches!(&resolved, ResolvedType::Primitive(p) if p == r),
                            Some(ExpTy::Named(tns, tl)) => {
                                let ts = find_struct(ex, tns, tl);
                                matches!((&resolved, ts.first()), (ResolvedType::Struct(s), Some(t)) if s.path() == t.path())
                            }
                            _ => false,
                        },
                        None => false,
                    };
                    if !ok {
                        vs.push(
                            member_ctx(v("api.member.type"), comp, m)
                                .ctx("type", "element-ref")
                                .ctx("type.namespace", if *ns == comp.ns { "same" } else { "other" })
                                .exp(format!("the type of global element {{{ns}}}{local}"))
                                .act(format!("{} -> {}", f.ty.text, describe_resolved(&resolved))),
                        );
                    }
                }
                ExpTy::Unresolvable(_) => {}
            }
        }
        for (i, f) in act.iter().enumerate() {
            if !used[i] {
                vs.push(v("api.member.extra").ctx("component.kind", comp.kind.label()).ctx("component.role", &comp.role).exp(format!("no undeclared member in {}", st.name)).act(format!("field `{}` (wire name `{}`)", f.ident, wire_of(f))));
            }
        }
        if order.windows(2).any(|w| w[0] > w[1]) {
            let has_inherited = exp.iter().any(|m| m.origin == "inherited");
            vs.push(
                v("api.member.order")
                    .ctx("component.kind", comp.kind.label())
                    .ctx("component.role", &comp.role)
                    .ctx("derived", has_inherited)
                    .exp(format!("{:?}", exp.iter().map(|m| m.wire.as_str()).collect::<Vec<_>>()))
                    .act(format!("{:?}", act.iter().map(wire_of).collect::<Vec<_>>())),
            );
        }
        // distinct field identifiers
        let mut ids = BTreeSet::new();
        for f in act {
            if !ids.insert(f.bare_ident.clone()) {
                vs.push(v("api.ident").ctx("position", "field").ctx("component.kind", comp.kind.label()).exp("distinct field identifiers").act(format!("`{}` twice in {}", f.ident, st.name)));
            }
        }
    }
    // nothing undeclared: every struct that declares one of the schema namespaces must be a component
    if only.is_none() {
        for s in &ex.structs {
            if s.module.is_empty() {
                continue;
            }
            if let Some(u) = s.ns_uri() {
                if model.namespaces.iter().any(|n| n == u) && !matched_structs.contains(&s.path()) {
                    vs.push(v("api.struct.extra").ctx("component.kind", "-").exp("only structs of declared components").act(format!("{} (namespace {u})", s.path().join("::"))));
                }
            }
        }
    }
    vs
}

pub fn describe_resolved(r: &ResolvedType) -> String {
    match r {
        ResolvedType::Struct(s) => format!("struct {} (ns {:?})", s.path().join("::"), s.ns_uri()),
        ResolvedType::Primitive(p) => format!("primitive {p}"),
        ResolvedType::Other(p, k) => format!("{k} {p}"),
        ResolvedType::Unresolved(p) => format!("unresolved {p}"),
    }
}

// ------------------------------------------------------------------------------------------------
// Reference structs: the API model printed as hand-rule yaserde structs (correct prefixes, a
// namespaces map covering every namespace of the schema set, unprefixed attributes). They serve
// the exclusion rule of C04: a shape is excluded only if the identical check fails on them too.

fn ref_field_type(ty: &ExpTy, model: &RefModel, mod_of: &dyn Fn(&str) -> String) -> String {
    match ty {
        ExpTy::Builtin(r, _) => r.clone(),
        ExpTy::Named(ns, l) => format!("super::{}::R{}", mod_of(ns), norm_ident(l)),
        ExpTy::ElemRef(ns, l) => {
            let t = model.comps.iter().find(|c| c.ns == *ns && c.name == *l && matches!(c.kind, CompKind::AnonElement | CompKind::TypedElement));
            match t {
                Some(t) if t.kind == CompKind::TypedElement => match &t.alias_of {
                    Some(a) => ref_field_type(a, model, mod_of),
                    None => "String".into(),
                },
                _ => format!("super::{}::R{}", mod_of(ns), norm_ident(l)),
            }
        }
        ExpTy::Unresolvable(_) => "String".into(),
    }
}

fn norm_ident(s: &str) -> String {
    s.chars().map(|c| if c.is_ascii_alphanumeric() { c } else { '_' }).collect()
}

pub fn print_reference_structs(model: &RefModel) -> String {
    let nss = &model.namespaces;
    let mod_of = |ns: &str| format!("rn{}", nss.iter().position(|n| n == ns).unwrap_or(0));
    let prefix_of = |ns: &str| format!("n{}", nss.iter().position(|n| n == ns).unwrap_or(0));
    let ns_map: String = nss.iter().map(|n| format!("{:?} = {:?}", prefix_of(n), n)).collect::<Vec<_>>().join(", ");
    let mut out = String::new();
    for ns in nss {
        out.push_str(&format!("pub mod {} {{\n    use yaserde_derive::{{YaDeserialize, YaSerialize}};\n", mod_of(ns)));
        for c in model.comps.iter().filter(|c| c.ns == *ns) {
            if c.kind == CompKind::TypedElement {
                continue;
            }
            out.push_str("    #[derive(Debug, Default, YaSerialize, YaDeserialize)]\n");
            out.push_str(&format!("    #[yaserde(prefix = {:?}, namespaces = {{{ns_map}}}, rename = {:?})]\n", prefix_of(ns), c.name));
            out.push_str(&format!("    pub struct R{} {{\n", norm_ident(&c.name)));
            if c.kind == CompKind::Simple {
                out.push_str("        #[yaserde(text = true)]\n        pub value: String,\n");
            }
            for (i, m) in c.members.iter().enumerate() {
                let t = ref_field_type(&m.ty, model, &mod_of);
                let t = match m.wrapper {
                    Wrapper::Bare => t,
                    Wrapper::Option => format!("Option<{t}>"),
                    Wrapper::Vec => format!("Vec<{t}>"),
                };
                if m.is_attr {
                    out.push_str(&format!("        #[yaserde(rename = {:?}, attribute = true)]\n", m.wire));
                } else {
                    out.push_str(&format!("        #[yaserde(prefix = {:?}, rename = {:?})]\n", prefix_of(m.ns.as_deref().unwrap_or(ns)), m.wire));
                }
                out.push_str(&format!("        pub f{i}: {t},\n"));
            }
            out.push_str("    }\n");
        }
        out.push_str("}\n");
    }
    out
}
