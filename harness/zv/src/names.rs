//! Rust keywords (edition 2024) and name styles used by the naming alphabets.

pub const STRICT: &[&str] = &[
    "as", "async", "await", "break", "const", "continue", "crate", "dyn", "else", "enum", "extern", "false", "fn", "for", "if", "impl", "in", "let", "loop", "match", "mod", "move", "mut", "pub", "ref",
    "return", "self", "Self", "static", "struct", "super", "trait", "true", "type", "unsafe", "use", "where", "while",
];
pub const RESERVED: &[&str] = &["abstract", "become", "box", "do", "final", "gen", "macro", "override", "priv", "try", "typeof", "unsized", "virtual", "yield"];
pub const WEAK: &[&str] = &["macro_rules", "raw", "safe", "union"];

pub fn all_keywords() -> Vec<&'static str> {
    let mut v = vec![];
    v.extend_from_slice(STRICT);
    v.extend_from_slice(RESERVED);
    v.extend_from_slice(WEAK);
    v
}

pub fn is_keyword(s: &str) -> bool {
    STRICT.contains(&s) || RESERVED.contains(&s) || WEAK.contains(&s)
}

/// keywords that cannot be raw identifiers
pub fn cannot_be_raw(s: &str) -> bool {
    matches!(s, "self" | "Self" | "super" | "crate" | "_")
}

/// is `ident` (as written in the output, possibly `r#x`) a legal Rust identifier in edition 2024?
pub fn legal_ident(ident: &str) -> bool {
    let (raw, b) = match ident.strip_prefix("r#") {
        Some(b) => (true, b),
        None => (false, ident),
    };
    let mut cs = b.chars();
    let Some(c0) = cs.next() else { return false };
    if !(c0 == '_' || c0.is_alphabetic()) || !cs.all(|c| c == '_' || c.is_alphanumeric()) || b == "_" {
        return false;
    }
    if raw {
        !cannot_be_raw(b)
    } else {
        !(STRICT.contains(&b) || RESERVED.contains(&b))
    }
}

/// name styles of the naming alphabet: (label, name)
pub fn styled(base_words: (&str, &str)) -> Vec<(&'static str, String)> {
    let (a, b) = base_words;
    let cap = |s: &str| {
        let mut c = s.chars();
        c.next().map(|f| f.to_uppercase().collect::<String>() + c.as_str()).unwrap_or_default()
    };
    vec![
        ("pascal", format!("{}{}", cap(a), cap(b))),
        ("camel", format!("{}{}", a, cap(b))),
        ("snake", format!("{a}_{b}")),
        ("kebab", format!("{a}-{b}")),
        ("upper", format!("{}_{}", a.to_uppercase(), b.to_uppercase())),
        ("digit", format!("{}{}2", cap(a), cap(b))),
    ]
}
