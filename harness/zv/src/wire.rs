//! E7: expected infosets, their comparison with serialized documents (namespace-aware: an
//! undeclared prefix is a parse error), XSD lexical comparison, and instance printing in three
//! namespace styles.

use std::collections::BTreeMap;

#[derive(Clone, Debug, PartialEq)]
pub enum Lex {
    Str(String),
    Int(i128),
    /// f64 value (NaN allowed)
    Float(f64),
    /// f32 value: compared after rounding the lexical form to f32
    Float32(f32),
    Bool(bool),
}

impl Lex {
    /// canonical XSD lexical form used when printing instances
    pub fn lexical(&self) -> String {
        match self {
            Lex::Str(s) => s.clone(),
            Lex::Int(i) => i.to_string(),
            Lex::Float(f) => {
                if f.is_nan() {
                    "NaN".into()
                } else if f.is_infinite() {
                    if *f > 0.0 {
                        "INF".into()
                    } else {
                        "-INF".into()
                    }
                } else {
                    // Rust's shortest round-trip form is a valid xs:double lexical form (may use exponent)
                    format!("{f:?}")
                }
            }
            Lex::Float32(f) => {
                if f.is_nan() {
                    "NaN".into()
                } else {
                    format!("{f:?}")
                }
            }
            Lex::Bool(b) => b.to_string(),
        }
    }
    pub fn class(&self) -> &'static str {
        match self {
            Lex::Str(_) => "string",
            Lex::Int(_) => "integer",
            Lex::Float(_) | Lex::Float32(_) => "float",
            Lex::Bool(_) => "boolean",
        }
    }
    /// does the text `actual` denote this value in the XSD lexical space of its type?
    pub fn matches(&self, actual: &str) -> bool {
        match self {
            Lex::Str(s) => s == actual,
            Lex::Int(i) => {
                let t = actual.trim();
                let t2 = t.strip_prefix('+').unwrap_or(t);
                !t.is_empty() && t2.parse::<i128>().map(|v| v == *i).unwrap_or(false)
            }
            Lex::Float(f) => {
                let t = actual.trim();
                if f.is_nan() {
                    return t == "NaN";
                }
                if f.is_infinite() {
                    return (t == "INF" && *f > 0.0) || (t == "-INF" && *f < 0.0);
                }
                // XSD double lexical: decimal or scientific; Rust's parser accepts the same forms (not "inf"/"nan")
                if t.eq_ignore_ascii_case("inf") || t.eq_ignore_ascii_case("nan") || t.eq_ignore_ascii_case("-inf") || t.eq_ignore_ascii_case("infinity") {
                    return false;
                }
                t.parse::<f64>().map(|v| v == *f).unwrap_or(false)
            }
            Lex::Float32(f) => {
                let t = actual.trim();
                if f.is_nan() {
                    return t == "NaN";
                }
                if t.eq_ignore_ascii_case("inf") || t.eq_ignore_ascii_case("nan") || t.eq_ignore_ascii_case("-inf") || t.eq_ignore_ascii_case("infinity") {
                    return false;
                }
                t.parse::<f32>().map(|v| v == *f).unwrap_or(false)
            }
            Lex::Bool(b) => {
                let t = actual.trim();
                (t == "true" || t == "1") == *b && ["true", "false", "1", "0"].contains(&t)
            }
        }
    }
}

#[derive(Clone, Debug)]
pub struct ExpElem {
    pub ns: Option<String>,
    pub local: String,
    /// judge the element's own QName (false for the root of a struct generated for a *type*)
    pub judge_name: bool,
    pub attrs: Vec<(String, Lex)>,
    pub children: Vec<ExpElem>,
    pub text: Option<Lex>,
    /// label used in violation contexts (member position etc.)
    pub tag: String,
}

impl ExpElem {
    pub fn new(ns: Option<&str>, local: &str) -> ExpElem {
        ExpElem { ns: ns.map(|s| s.to_string()), local: local.into(), judge_name: true, attrs: vec![], children: vec![], text: None, tag: String::new() }
    }
}

#[derive(Clone, Debug)]
pub struct WireDiff {
    pub clause: &'static str,
    pub path: String,
    pub tag: String,
    pub expected: String,
    pub actual: String,
}

fn qn(ns: Option<&str>, local: &str) -> String {
    match ns {
        Some(n) => format!("{{{n}}}{local}"),
        None => local.to_string(),
    }
}

pub fn compare_doc(xml: &str, exp: &ExpElem) -> Vec<WireDiff> {
    let doc = match roxmltree::Document::parse(xml) {
        Ok(d) => d,
        Err(e) => {
            return vec![WireDiff { clause: "wire.malformed", path: "/".into(), tag: String::new(), expected: "namespace-well-formed XML".into(), actual: format!("{e}") }];
        }
    };
    let mut out = vec![];
    compare_node(doc.root_element(), exp, "", &mut out);
    out
}

fn compare_node(node: roxmltree::Node, exp: &ExpElem, path: &str, out: &mut Vec<WireDiff>) {
    let here = format!("{path}/{}", exp.local);
    if exp.judge_name {
        let a = qn(node.tag_name().namespace(), node.tag_name().name());
        let e = qn(exp.ns.as_deref(), &exp.local);
        if a != e {
            out.push(WireDiff { clause: "wire.qname", path: here.clone(), tag: exp.tag.clone(), expected: e, actual: a });
        }
    }
    // attributes (namespace declarations are not attributes in roxmltree)
    let mut actual_attrs: BTreeMap<String, String> = BTreeMap::new();
    for a in node.attributes() {
        // xsi:* and xml:* attributes are not produced by the generated code; judge all
        actual_attrs.insert(qn(a.namespace(), a.name()), a.value().to_string());
    }
    for (name, lex) in &exp.attrs {
        match actual_attrs.remove(name) {
            None => {
                // is it there as an element or with a namespace?
                let as_elem = node.children().any(|c| c.is_element() && c.tag_name().name() == name);
                let qualified = actual_attrs.keys().find(|k| k.ends_with(&format!("}}{name}"))).cloned();
                let actual = if as_elem {
                    "emitted as a child element".to_string()
                } else if let Some(q) = &qualified {
                    format!("emitted as namespace-qualified attribute {q}")
                } else {
                    "absent".into()
                };
                if let Some(q) = qualified {
                    actual_attrs.remove(&q);
                }
                out.push(WireDiff { clause: "wire.attr", path: format!("{here}/@{name}"), tag: "attribute".into(), expected: format!("unqualified attribute {name}"), actual });
            }
            Some(v) => {
                if !lex.matches(&v) {
                    out.push(WireDiff { clause: "wire.lexical", path: format!("{here}/@{name}"), tag: format!("attribute:{}", lex.class()), expected: lex.lexical(), actual: v });
                }
            }
        }
    }
    for (k, v) in actual_attrs {
        out.push(WireDiff { clause: "wire.attr", path: format!("{here}/@{k}"), tag: "attribute".into(), expected: "no undeclared attribute".into(), actual: format!("{k}={v:?}") });
    }
    // children
    let actual_children: Vec<roxmltree::Node> = node.children().filter(|c| c.is_element()).collect();
    let exp_names: Vec<String> = exp.children.iter().map(|c| qn(c.ns.as_deref(), &c.local)).collect();
    let act_names: Vec<String> = actual_children.iter().map(|c| qn(c.tag_name().namespace(), c.tag_name().name())).collect();
    if exp_names != act_names {
        let mut se = exp_names.clone();
        let mut sa = act_names.clone();
        se.sort();
        sa.sort();
        let le: Vec<String> = exp.children.iter().map(|c| c.local.clone()).collect();
        let la: Vec<String> = actual_children.iter().map(|c| c.tag_name().name().to_string()).collect();
        let clause = if se == sa {
            "wire.order"
        } else if le == la {
            "wire.qname"
        } else {
            let mut sle = le.clone();
            let mut sla = la.clone();
            sle.sort();
            sla.sort();
            if sle == sla {
                "wire.order"
            } else {
                "wire.occurrence"
            }
        };
        let tag = exp.children.iter().zip(actual_children.iter()).find(|(e, a)| qn(e.ns.as_deref(), &e.local) != qn(a.tag_name().namespace(), a.tag_name().name())).map(|(e, _)| e.tag.clone()).or_else(|| exp.children.last().map(|c| c.tag.clone())).unwrap_or_default();
        out.push(WireDiff { clause, path: here.clone(), tag, expected: format!("{exp_names:?}"), actual: format!("{act_names:?}") });
        return;
    }
    for (a, e) in actual_children.iter().zip(exp.children.iter()) {
        compare_node(*a, e, &here, out);
    }
    if let Some(lex) = &exp.text {
        let text: String = node.children().filter(|c| c.is_text()).map(|c| c.text().unwrap_or("")).collect();
        if !lex.matches(&text) {
            out.push(WireDiff { clause: if matches!(lex, Lex::Str(_)) { "wire.text" } else { "wire.lexical" }, path: here.clone(), tag: format!("{}:{}", exp.tag, lex.class()), expected: lex.lexical(), actual: text });
        }
    } else if exp.children.is_empty() {
        let text: String = node.children().filter(|c| c.is_text()).map(|c| c.text().unwrap_or("")).collect();
        if !text.trim().is_empty() {
            out.push(WireDiff { clause: "wire.text", path: here.clone(), tag: exp.tag.clone(), expected: "no text content".into(), actual: text });
        }
    }
}

fn esc_text(s: &str) -> String {
    s.replace('&', "&amp;").replace('<', "&lt;").replace('>', "&gt;")
}
fn esc_attr(s: &str) -> String {
    esc_text(s).replace('"', "&quot;")
}

/// prints `exp` as an instance document. style 0: a fresh prefix per namespace, all declared on
/// the root; 1: default namespace = root's namespace, prefixes for the rest; 2: default namespace
/// re-declared on each element whose namespace differs from its parent's.
pub fn print_instance(exp: &ExpElem, style: u8) -> String {
    let mut nss: Vec<String> = vec![];
    fn collect(e: &ExpElem, nss: &mut Vec<String>) {
        if let Some(n) = &e.ns {
            if !nss.contains(n) {
                nss.push(n.clone());
            }
        }
        for c in &e.children {
            collect(c, nss);
        }
    }
    collect(exp, &mut nss);
    let mut out = String::from("<?xml version=\"1.0\" encoding=\"UTF-8\"?>");
    let prefix_of = |ns: &str| -> String { format!("q{}", nss.iter().position(|n| n == ns).unwrap_or(0)) };
    fn rec(e: &ExpElem, style: u8, root: bool, parent_default: Option<&str>, nss: &[String], prefix_of: &dyn Fn(&str) -> String, out: &mut String) {
        let mut decls = String::new();
        let mut default_here = parent_default.map(|s| s.to_string());
        let name = match (&e.ns, style) {
            (None, _) => {
                // an unqualified element under a default namespace must undeclare it
                if parent_default.is_some() {
                    decls.push_str(" xmlns=\"\"");
                    default_here = None;
                }
                e.local.clone()
            }
            (Some(ns), 0) => format!("{}:{}", prefix_of(ns), e.local),
            (Some(ns), 1) => {
                if root {
                    default_here = Some(ns.clone());
                    decls.push_str(&format!(" xmlns=\"{}\"", esc_attr(ns)));
                    e.local.clone()
                } else if parent_default == Some(ns.as_str()) {
                    e.local.clone()
                } else {
                    format!("{}:{}", prefix_of(ns), e.local)
                }
            }
            (Some(ns), _) => {
                if parent_default != Some(ns.as_str()) {
                    decls.push_str(&format!(" xmlns=\"{}\"", esc_attr(ns)));
                    default_here = Some(ns.clone());
                }
                e.local.clone()
            }
        };
        if root && style != 2 {
            for n in nss {
                if style == 1 && Some(n.as_str()) == e.ns.as_deref() {
                    continue;
                }
                decls.push_str(&format!(" xmlns:{}=\"{}\"", prefix_of(n), esc_attr(n)));
            }
        }
        out.push('<');
        out.push_str(&name);
        out.push_str(&decls);
        for (k, v) in &e.attrs {
            out.push_str(&format!(" {k}=\"{}\"", esc_attr(&v.lexical())));
        }
        out.push('>');
        if let Some(t) = &e.text {
            out.push_str(&esc_text(&t.lexical()));
        }
        for c in &e.children {
            rec(c, style, false, default_here.as_deref(), nss, prefix_of, out);
        }
        out.push_str(&format!("</{name}>"));
    }
    rec(exp, style, true, None, &nss, &prefix_of, &mut out);
    out
}
