fn main(){}
