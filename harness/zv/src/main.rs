//! zv: bounded exhaustive exploration of the real zeep-lib (DESIGN.md §3).

mod batch;
mod corpus;
mod extract;
mod names;
mod reference;
mod interpose;
mod props;
mod report;
mod runner;
mod schema;
mod seeds;
mod soap;
mod valgen;
mod wire;

fn usage() -> ! {
    eprintln!("usage: zv check <ID> [quick|thorough] | zv replay <path> | zv gen <start> [sibling...] | zv worker | zv setup");
    std::process::exit(2);
}

fn main() {
    let args: Vec<String> = std::env::args().collect();
    match args.get(1).map(|s| s.as_str()) {
        Some("worker") => runner::worker_main(),
        Some("setup") => props::setup(),
        Some("selftest-interpose") => match interpose::selftest() {
            Ok(m) => println!("interposers ok: {m}"),
            Err(e) => {
                eprintln!("MACHINERY-ERROR: {e}");
                std::process::exit(2);
            }
        },
        Some("gen") => {
            runner::install_quiet_panic_hook();
            let start = args.get(2).unwrap_or_else(|| usage());
            let case = corpus::case_from_path(std::path::Path::new(start)).expect("readable input");
            match runner::run_inproc(&case) {
                runner::Outcome::Ok(s) => print!("{s}"),
                o => {
                    eprintln!("{}", o.brief());
                    std::process::exit(1);
                }
            }
        }
        Some("print-seed") => {
            let which = args.get(2).map(|s| s.as_str()).unwrap_or("kitchen");
            let set = seeds::by_name(which);
            for (n, t) in set.print() {
                println!("===== {n}\n{t}");
            }
            runner::install_quiet_panic_hook();
            println!("===== OUTPUT\n{}", match runner::run_inproc(&set.to_case()) { runner::Outcome::Ok(s) => s, o => o.brief() });
        }
        Some("compile-seed") => {
            runner::install_quiet_panic_hook();
            let which = args.get(2).map(|s| s.as_str()).unwrap_or("w0");
            let set = seeds::by_name(which);
            let text = match runner::run_inproc(&set.to_case()) {
                runner::Outcome::Ok(s) => s,
                o => {
                    eprintln!("{}", o.brief());
                    std::process::exit(1);
                }
            };
            let r = batch::run_batch("dbg", &[batch::BatchCase { id: which.into(), emitted: text, driver: None }], 20_000);
            for (c, ds) in &r.compile_errors {
                for d in ds {
                    println!("{c}: [{}] line {} {} | {}", d.code, d.line, d.message, d.snippet);
                }
            }
            println!("build {:.1}s, cache hits {}", r.build_secs, r.cache_hits);
        }
        Some("check") => {
            let id = args.get(2).unwrap_or_else(|| usage());
            let tier = std::env::var("VERIF_TIER").ok().or_else(|| args.get(3).cloned()).unwrap_or_else(|| "quick".into());
            if tier != "quick" && tier != "thorough" {
                usage();
            }
            runner::install_quiet_panic_hook();
            std::process::exit(props::check(id, &tier));
        }
        Some("replay") => {
            let p = args.get(2).unwrap_or_else(|| usage());
            let v: report::Violation = serde_json::from_str(&std::fs::read_to_string(p).unwrap_or_else(|e| report::machinery(&format!("read {p}: {e}"))))
                .unwrap_or_else(|e| report::machinery(&format!("parse {p}: {e}")));
            runner::install_quiet_panic_hook();
            std::process::exit(props::replay(&v));
        }
        _ => usage(),
    }
}
