//! C11: every directed import graph over up to n files (every edge subset, self-loops and both
//! directions included): generation terminates, the output holds every component of every file
//! reachable from the start file exactly once and nothing else, and unreachable siblings (present,
//! removed, changed, malformed, not a schema) never influence the output.

use crate::report::{Report, Violation};
use crate::runner::{Case, Outcome, Pool};
use crate::schema::*;
use crate::seeds::{anon_element, complex, el, simple};
use serde_json::{json, Value};
use std::collections::BTreeMap;

fn ns(i: usize) -> String {
    format!("http://zv.example/n{i}")
}

fn file_for(i: usize, n: usize, edges: u32, dup: bool, changed: bool) -> XsdFile {
    file_for_ns(i, n, edges, dup, changed, false)
}

/// every file additionally declares a global element ZvE<i>, and for every file j it imports a
/// type ZvD<i>To<j> that extends j's ZvT<j> and holds a ref= to j's ZvE<j>: the components of a file
/// then NEED the components of the files it imports, however those were reached before
fn file_with_cross_references(i: usize, n: usize, edges: u32) -> XsdFile {
    let mut f = file_for_ns(i, n, edges, false, false, false);
    f.comps.push(anon_element(&format!("ZvE{i}"), vec![el("w", TypeRef::b("string"))]));
    for j in 0..n {
        if j != i && edges & (1 << (i * n + j)) != 0 {
            f.prefixes.push((format!("t{j}"), ns(j)));
            f.comps.push(Comp::Complex(ComplexType {
                name: format!("ZvD{i}To{j}"),
                base: Some(QName::new(&ns(j), &format!("ZvT{j}"))),
                seq: Some(Seq::of(vec![el("own", TypeRef::b("string")), Particle::Ref(ElemRef { target: QName::new(&ns(j), &format!("ZvE{j}")), min: 0, max: Max::N(1), xmlns: vec![] })])),
                ..Default::default()
            }));
        }
    }
    f
}

/// `shared`: every file but the start file lives in ONE namespace (several files, one namespace,
/// imported under different schemaLocations)
fn file_for_ns(i: usize, n: usize, edges: u32, dup: bool, changed: bool, shared: bool) -> XsdFile {
    file_for_ns_mode(i, n, edges, dup, changed, if shared { 1 } else { 0 })
}

/// `mode` 0: every file its own namespace; 1: every file but the start file in ONE namespace;
/// 2: even-numbered files (the start file among them) in one namespace, odd-numbered in another
fn file_for_ns_mode(i: usize, n: usize, edges: u32, dup: bool, changed: bool, mode: u8) -> XsdFile {
    let ns = |k: usize| match mode {
        1 if k >= 1 => ns(1),
        2 => ns(k % 2),
        _ => ns(k),
    };
    let mut imports = vec![];
    for j in 0..n {
        if edges & (1 << (i * n + j)) != 0 {
            imports.push(Import { ns: ns(j), loc: Some(format!("f{j}.xsd")) });
            if dup {
                imports.push(Import { ns: ns(j), loc: Some(format!("f{j}.xsd")) });
            }
        }
    }
    let (t, s) = if changed { (format!("ZvX{i}"), format!("ZvY{i}")) } else { (format!("ZvT{i}"), format!("ZvS{i}")) };
    XsdFile {
        name: format!("f{i}.xsd"),
        tns: ns(i),
        prefixes: vec![(format!("t{i}"), ns(i))],
        default_ns: None,
        imports,
        comps: vec![complex(&t, vec![el("v", TypeRef::b("string"))]), simple(&s, "string", vec![("maxLength", "9")])],
    }
}

pub fn reachable(n: usize, edges: u32) -> Vec<bool> {
    let mut r = vec![false; n];
    let mut stack = vec![0usize];
    r[0] = true;
    while let Some(i) = stack.pop() {
        for j in 0..n {
            if edges & (1 << (i * n + j)) != 0 && !r[j] {
                r[j] = true;
                stack.push(j);
            }
        }
    }
    r
}

/// the WSDL start file is an extra node with the outgoing edges of row 0; file 0 itself is then
/// an ordinary sibling, reachable only through an edge that points at it
pub fn reachable_from_wsdl(n: usize, edges: u32) -> Vec<bool> {
    let mut r = vec![false; n];
    let mut stack = vec![];
    for j in 0..n {
        if edges & (1 << j) != 0 {
            r[j] = true;
            stack.push(j);
        }
    }
    while let Some(i) = stack.pop() {
        for j in 0..n {
            if edges & (1 << (i * n + j)) != 0 && !r[j] {
                r[j] = true;
                stack.push(j);
            }
        }
    }
    r
}

fn graph_features(n: usize, edges: u32) -> (String, bool) {
    let r = reachable(n, edges);
    let e = |i: usize, j: usize| edges & (1 << (i * n + j)) != 0;
    let mut cycle = "acyclic";
    // longer cycles: DFS from each reachable node back to itself
    let mut reach2 = vec![vec![false; n]; n];
    for i in 0..n {
        for j in 0..n {
            reach2[i][j] = e(i, j);
        }
    }
    for k in 0..n {
        for i in 0..n {
            for j in 0..n {
                if reach2[i][k] && reach2[k][j] {
                    reach2[i][j] = true;
                }
            }
        }
    }
    if (0..n).any(|i| r[i] && reach2[i][i]) {
        cycle = "longer-cycle";
    }
    if (0..n).any(|i| r[i] && (0..n).any(|j| j != i && e(i, j) && e(j, i))) {
        cycle = "mutual";
    }
    if (0..n).any(|i| r[i] && e(i, i)) {
        cycle = "self-loop";
    }
    let diamond = (0..n).any(|j| r[j] && (0..n).filter(|i| r[*i] && *i != j && e(*i, j)).count() >= 2);
    (cycle.to_string(), diamond)
}

#[derive(Clone, Copy, PartialEq, Debug)]
enum Variant {
    Base,
    Removed,
    Changed,
    Malformed,
    NonSchema,
    DupEdges,
    WsdlStart,
    SharedNs,
    AlternatingNs,
    CrossReferences,
    AnnotatedImports,
    DotSlashLocations,
}

fn variant_name(v: Variant) -> &'static str {
    match v {
        Variant::Base => "as-generated",
        Variant::Removed => "unreachable-removed",
        Variant::Changed => "unreachable-changed",
        Variant::Malformed => "unreachable-malformed",
        Variant::NonSchema => "unreachable-not-a-schema",
        Variant::DupEdges => "duplicate-import-edges",
        Variant::WsdlStart => "wsdl-start",
        Variant::SharedNs => "files-share-one-namespace",
        Variant::AlternatingNs => "two-namespaces-alternating-over-the-files",
        Variant::CrossReferences => "cross-file-bases-and-refs",
        Variant::AnnotatedImports => "annotation-before-and-between-the-imports",
        Variant::DotSlashLocations => "schema-locations-spelled-dot-slash",
    }
}

fn build_case(n: usize, edges: u32, v: Variant) -> Case {
    let r = reachable(n, edges);
    let mut files = vec![];
    for i in 0..n {
        let unreachable = !r[i];
        let text = match v {
            Variant::Removed if unreachable => continue,
            Variant::Changed if unreachable => print_xsd(&file_for(i, n, edges, false, true)),
            Variant::Malformed if unreachable => "<<<this is not xml".to_string(),
            Variant::NonSchema if unreachable => "<?xml version=\"1.0\"?><catalog><entry id=\"1\"/></catalog>".to_string(),
            Variant::DupEdges => print_xsd(&file_for(i, n, edges, true, false)),
            Variant::SharedNs => print_xsd(&file_for_ns(i, n, edges, false, false, true)),
            Variant::AlternatingNs => print_xsd(&file_for_ns_mode(i, n, edges, false, false, 2)),
            Variant::CrossReferences => print_xsd(&file_with_cross_references(i, n, edges)),
            // the sibling is named `./f1.xsd` in schemaLocation (a common spelling of a sibling's name)
            Variant::DotSlashLocations => print_xsd(&file_for(i, n, edges, false, false)).replace("schemaLocation=\"f", "schemaLocation=\"./f"),
            Variant::AnnotatedImports => {
                // an <xs:annotation> as the first child of the schema and another one after every import
                let note = "<xs:annotation><xs:documentation>about the imports</xs:documentation></xs:annotation>";
                let text = print_xsd(&file_for(i, n, edges, false, false));
                let mut out = String::new();
                let mut first = true;
                for line in text.lines() {
                    out.push_str(line);
                    out.push('\n');
                    if (first && line.trim_start().starts_with("<xs:schema")) || line.trim_start().starts_with("<xs:import") {
                        out.push_str(note);
                        out.push('\n');
                        first = false;
                    }
                }
                out
            }
            _ => print_xsd(&file_for(i, n, edges, false, false)),
        };
        files.push((format!("f{i}.xsd"), text));
    }
    if v == Variant::WsdlStart {
        // the start file becomes a WSDL whose inline schema is file 0 (same namespace, same imports)
        let mut schema = file_for(0, n, edges, false, false);
        schema.tns = ns(99);
        schema.prefixes = vec![("t99".into(), ns(99))];
        schema.comps = vec![complex("ZvW", vec![el("v", TypeRef::b("string"))]), anon_element("Op0", vec![el("a", TypeRef::b("string"))])];
        let w = Wsdl {
            name: "start.wsdl".into(),
            tns: ns(99),
            prefixes: vec![],
            schema,
            messages: vec![Message { name: "Op0In".into(), parts: vec![Part { name: "parameters".into(), element: QName::new(&ns(99), "Op0") }] }],
            port_type: "P".into(),
            pt_ops: vec![PtOp { name: "Op0".into(), input: "Op0In".into(), output: None }],
            binding: "B".into(),
            b_ops: vec![BOp { name: "Op0".into(), action: None, input: BIo::default(), output: None }],
            service: "Svc".into(),
            port: "Port".into(),
            default_ns_style: false,
            address: "http://127.0.0.1:9/x".into(),
        };
        // file 0 stays as a sibling only if some edge points at it (then it is reachable as a file)
        files.push(("start.wsdl".into(), print_wsdl(&w)));
        return Case { files, start: "start.wsdl".into() };
    }
    Case { files, start: "f0.xsd".into() }
}

struct Job {
    n: usize,
    edges: u32,
    variant: Variant,
}

fn edge_list(n: usize, edges: u32) -> Vec<(usize, usize)> {
    let mut v = vec![];
    for i in 0..n {
        for j in 0..n {
            if edges & (1 << (i * n + j)) != 0 {
                v.push((i, j));
            }
        }
    }
    v
}

fn mk_violation(job: &Job, clause: &str, node: Option<usize>, exp: String, act: String) -> Violation {
    let (cycle, diamond) = graph_features(job.n, job.edges);
    let mut v = Violation::new("C11", clause, "import-graphs")
        .ctx("cycle", cycle)
        .ctx("diamond", diamond)
        .ctx("variant", variant_name(job.variant))
        .exp(exp)
        .act(act)
        .depth(edge_list(job.n, job.edges).len() as u32);
    if let Some(nd) = node {
        let r = reachable(job.n, job.edges);
        v = v.ctx("node", if nd == 0 { "start" } else if r[nd] { "reachable" } else { "unreachable" });
    }
    v.case = json!({"n": job.n, "edges": job.edges, "edge_list": edge_list(job.n, job.edges), "variant": variant_name(job.variant)});
    v
}

/// judges one outcome; `base_hash` is the hash of the as-generated variant of the same graph
fn judge(job: &Job, out: &Outcome, base_hash: Option<&str>) -> (Vec<Violation>, Option<String>) {
    let mut vs = vec![];
    let summary: Value = match out {
        Outcome::Ok(s) => serde_json::from_str(s).unwrap_or(Value::Null),
        o => {
            let clause = match o {
                Outcome::Err { .. } => "run.rejected",
                Outcome::Panic { .. } => "run.panic",
                Outcome::Abort { .. } => "run.abort",
                _ => "run.timeout",
            };
            vs.push(mk_violation(job, clause, None, "Ok within the time limit".into(), o.brief()));
            return (vs, None);
        }
    };
    let names: Vec<String> = summary["structs"].as_array().map(|a| a.iter().filter_map(|x| x.as_str().map(|s| s.to_string())).collect()).unwrap_or_default();
    let r = if job.variant == Variant::WsdlStart { reachable_from_wsdl(job.n, job.edges) } else { reachable(job.n, job.edges) };
    let mut counts: BTreeMap<String, usize> = BTreeMap::new();
    for nm in &names {
        if nm.starts_with("Zv") {
            *counts.entry(nm.clone()).or_insert(0) += 1;
        }
    }
    for i in 0..job.n {
        for kind in ["ZvT", "ZvS"] {
            let nm = format!("{kind}{i}");
            let c = counts.remove(&nm).unwrap_or(0);
            let want = if r[i] { 1 } else { 0 };
            if c != want {
                let clause = if r[i] { "import.multiplicity" } else { "import.unreachable" };
                vs.push(mk_violation(job, clause, Some(i), format!("{nm} x{want}"), format!("{nm} x{c}")).ctx("component", kind));
            }
        }
    }
    if job.variant == Variant::CrossReferences {
        for i in 0..job.n {
            let want = if r[i] { 1 } else { 0 };
            let mut names = vec![format!("ZvE{i}")];
            for j in 0..job.n {
                if j != i && job.edges & (1 << (i * job.n + j)) != 0 {
                    names.push(format!("ZvD{i}To{j}"));
                }
            }
            for nm in names {
                let c = counts.remove(&nm).unwrap_or(0);
                if c != want {
                    let clause = if r[i] { "import.multiplicity" } else { "import.unreachable" };
                    vs.push(mk_violation(job, clause, Some(i), format!("{nm} x{want}"), format!("{nm} x{c}")).ctx("component", if nm.starts_with("ZvD") { "ZvD" } else { "ZvE" }));
                }
            }
        }
    }
    if job.variant == Variant::WsdlStart {
        let c = counts.remove("ZvW").unwrap_or(0);
        if c != 1 {
            vs.push(mk_violation(job, "import.multiplicity", None, "ZvW x1".into(), format!("ZvW x{c}")).ctx("component", "ZvW"));
        }
    }
    for (nm, c) in counts {
        vs.push(mk_violation(job, "import.unreachable", None, "no component of an unreachable or replaced file".into(), format!("{nm} x{c}")));
    }
    let hash = summary["hash"].as_str().map(|s| s.to_string());
    if let (Some(b), Some(h)) = (base_hash, &hash) {
        if matches!(job.variant, Variant::Removed | Variant::Changed | Variant::Malformed | Variant::NonSchema) && b != h {
            vs.push(mk_violation(job, "import.sibling_dependence", None, "output identical to the as-generated sibling set".into(), "output differs".into()));
        }
    }
    (vs, hash)
}

pub fn check(tier: &str) -> i32 {
    let mut rep = Report::new("C11", tier, "model_checking");
    let max_n = if tier == "quick" { 4 } else { 5 };
    let n5_edge_cap: u32 = 6;
    let mut pool = Pool::new();
    pool.small_stack = true;
    pool.want_text = false;
    let mut states = 0u64;
    let mut transitions = 0u64;
    let mut stopped = false;
    let mut class_counts: BTreeMap<String, u64> = BTreeMap::new();
    let mut per_n = vec![];
    'outer: for n in 1..=max_n {
        let total: u32 = 1u32 << (n * n);
        // breadth-first: fewest edges first
        let mut graphs: Vec<u32> = if n >= 5 { (0..total).filter(|e| e.count_ones() <= n5_edge_cap).collect() } else { (0..total).collect() };
        graphs.sort_by_key(|e| e.count_ones());
        let variants: Vec<Variant> = if n >= 5 {
            vec![Variant::Base, Variant::Malformed]
        } else if n <= 3 || tier == "thorough" {
            vec![Variant::Base, Variant::Removed, Variant::Changed, Variant::Malformed, Variant::NonSchema, Variant::DupEdges, Variant::WsdlStart, Variant::SharedNs, Variant::AlternatingNs, Variant::CrossReferences, Variant::AnnotatedImports, Variant::DotSlashLocations]
        } else {
            vec![Variant::Base, Variant::Malformed, Variant::Removed, Variant::SharedNs, Variant::AlternatingNs, Variant::CrossReferences, Variant::AnnotatedImports, Variant::DotSlashLocations]
        };
        let mut n_states = 0u64;
        for chunk in graphs.chunks(4096) {
            let mut jobs: Vec<Job> = vec![];
            for &e in chunk {
                let r = reachable(n, e);
                let has_unreachable = r.iter().any(|x| !x);
                for &v in &variants {
                    let needs_unreach = matches!(v, Variant::Removed | Variant::Changed | Variant::Malformed | Variant::NonSchema);
                    if needs_unreach && !has_unreachable {
                        continue;
                    }
                    if v == Variant::DupEdges && e == 0 {
                        continue;
                    }
                    if (v == Variant::SharedNs || v == Variant::AlternatingNs) && n < 3 {
                        continue;
                    }
                    // quick tier: the two spelling/namespace variants added last run on all graphs with
                    // up to 3 files and, for 4 files, on those with at most 6 import edges (thorough: all)
                    if tier == "quick" && n == 4 && matches!(v, Variant::AlternatingNs | Variant::AnnotatedImports | Variant::DotSlashLocations) && e.count_ones() > 6 {
                        continue;
                    }
                    // references across an import CYCLE are finding F-C08-1 (C08's); here: acyclic graphs
                    if v == Variant::CrossReferences && (e == 0 || graph_features(n, e).0 != "acyclic") {
                        continue;
                    }
                    jobs.push(Job { n, edges: e, variant: v });
                }
            }
            let cases: Vec<Case> = jobs.iter().map(|j| build_case(j.n, j.edges, j.variant)).collect();
            let outs = pool.run_all(&cases);
            // base hashes per graph
            let mut base: BTreeMap<u32, String> = BTreeMap::new();
            for (j, (o, _)) in jobs.iter().zip(outs.iter()) {
                if j.variant == Variant::Base {
                    if let Outcome::Ok(s) = o {
                        if let Ok(v) = serde_json::from_str::<Value>(s) {
                            if let Some(h) = v["hash"].as_str() {
                                base.insert(j.edges, h.to_string());
                            }
                        }
                    }
                }
            }
            for (j, (o, _)) in jobs.iter().zip(outs.iter()) {
                states += 1;
                n_states += 1;
                transitions += 1 + edge_list(j.n, j.edges).len() as u64;
                *class_counts.entry(o.class().to_string()).or_insert(0) += 1;
                let (vs, _) = judge(j, o, base.get(&j.edges).map(|s| s.as_str()));
                let (cycle, diamond) = graph_features(j.n, j.edges);
                rep.outcome("graph_shape", format!("n{}:{}:{}", j.n, cycle, if diamond { "diamond" } else { "tree" }));
                for v in vs {
                    rep.violation(v);
                }
                if j.variant == Variant::Base && (j.edges == 0 || j.edges.count_ones() == (n * n) as u32 || j.edges % 9973 == 1) {
                    rep.sample(json!({"n": j.n, "edges": edge_list(j.n, j.edges), "reachable": reachable(j.n, j.edges), "outcome": o.class(), "summary": o.text().and_then(|s| serde_json::from_str::<Value>(s).ok())}));
                }
            }
            if rep.unlisted() >= 25 {
                stopped = true;
                per_n.push(json!({"n": n, "graphs": total, "runs": n_states, "complete": false}));
                break 'outer;
            }
        }
        per_n.push(json!({"n": n, "graphs": graphs.len(), "edge_cap": if n >= 5 { json!(n5_edge_cap) } else { Value::Null }, "variants": variants.iter().map(|v| variant_name(*v)).collect::<Vec<_>>(), "runs": n_states, "complete": true}));
    }
    rep.set("states", json!(states));
    rep.set("transitions", json!(transitions));
    rep.set("traces_validated_against_impl", json!(states));
    rep.set("max_depth", json!(max_n * max_n));
    rep.set("bound", json!(format!("all directed graphs (self-loops, both directions) on n<=4 files, start = file 0 (thorough: also all graphs on 5 files with at most 6 import edges); per-level variants listed in per_n")));
    rep.set("exhaustive", json!(!stopped));
    rep.set("per_n", json!(per_n));
    rep.set("outcome_classes", json!(class_counts));
    rep.set("evaluations", json!(states));
    if stopped {
        rep.set("caps_hit", json!(["stopped expanding after 25 unlisted violations"]));
    }
    rep.assume("start file fixed to file 0: the files are identical up to their index, so every (graph, start) pair is isomorphic to one explored (relabelling symmetry)");
    rep.assume("variant cross-file-bases-and-refs (a type per import edge that extends the imported file's type and refs its global element) is run on the graphs whose reachable part is acyclic; across import cycles such references are finding F-C08-1");
    rep.assume("quick tier, n = 4: the variants two-namespaces-alternating and annotation-before-and-between-the-imports are run on the graphs with at most 6 import edges only (all graphs in the thorough tier)");
    rep.assume("component multiplicity is read lexically (identifier after the `struct` keyword); the component names ZvT<i>/ZvS<i> occur nowhere else");
    rep.assume("random graphs over more than four files (quantifier text) are not explored: that would be sampling");
    rep.finish()
}

pub fn replay(v: &Violation) -> i32 {
    let n = v.case["n"].as_u64().unwrap_or(1) as usize;
    let edges = v.case["edges"].as_u64().unwrap_or(0) as u32;
    let vname = v.case["variant"].as_str().unwrap_or("as-generated");
    let variant = [Variant::Base, Variant::Removed, Variant::Changed, Variant::Malformed, Variant::NonSchema, Variant::DupEdges, Variant::WsdlStart, Variant::SharedNs, Variant::AlternatingNs, Variant::CrossReferences, Variant::AnnotatedImports, Variant::DotSlashLocations]
        .into_iter()
        .find(|x| variant_name(*x) == vname)
        .unwrap_or(Variant::Base);
    let mut pool = Pool::new();
    pool.small_stack = true;
    pool.want_text = false;
    pool.workers = 1;
    let job = Job { n, edges, variant };
    let base_job = Job { n, edges, variant: Variant::Base };
    let outs = pool.run_all(&[build_case(n, edges, Variant::Base), build_case(n, edges, variant)]);
    let (_, bh) = judge(&base_job, &outs[0].0, None);
    let (vs, _) = judge(&job, &outs[1].0, bh.as_deref());
    println!("replay C11: n={n} edges={:?} variant={vname} -> {}", edge_list(n, edges), outs[1].0.brief());
    for x in &vs {
        println!("VIOLATION property=C11 replay=(replayed) clause={} expected={} actual={}", x.clause, x.expected, x.actual);
    }
    if vs.is_empty() {
        0
    } else {
        1
    }
}
