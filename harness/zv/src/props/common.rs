//! Shared plumbing of the schema-level scopes: run a list of states on the real generator,
//! extract, aggregate violations by (clause, context).

use crate::extract::{extract, Extract};
use crate::report::{Report, Violation};
use crate::runner::{run_inproc, Outcome};
use crate::schema::SchemaSet;
use rayon::prelude::*;
use serde_json::json;
use std::collections::BTreeMap;

pub struct State {
    pub label: String,
    pub depth: u32,
    pub set: SchemaSet,
}

pub struct Ran {
    pub outcome: Outcome,
    pub extract: Option<Result<Extract, String>>,
}

/// runs every state in-process (panics caught) in parallel; extraction included
pub fn run_states(states: &[State]) -> Vec<Ran> {
    states
        .par_iter()
        .map(|s| {
            crate::runner::install_quiet_panic_hook();
            let outcome = run_inproc(&s.set.to_case());
            let extract = outcome.text().map(extract);
            Ran { outcome, extract }
        })
        .collect()
}

/// dedup states on their canonical form (printed file set); keeps the first (BFS order => minimal depth)
pub fn dedup_states(states: Vec<State>) -> (Vec<State>, u64) {
    let mut seen = std::collections::BTreeSet::new();
    let mut out = vec![];
    let mut transitions = 0u64;
    for s in states {
        transitions += 1;
        if seen.insert(s.set.canon_hash()) {
            out.push(s);
        }
    }
    (out, transitions)
}

pub struct Agg {
    pub map: BTreeMap<String, (Violation, u64)>,
}

impl Agg {
    pub fn new() -> Agg {
        Agg { map: BTreeMap::new() }
    }
    pub fn add(&mut self, v: Violation) {
        let key = format!("{}|{:?}", v.clause, v.context);
        match self.map.get_mut(&key) {
            Some(e) => {
                e.1 += 1;
                // keep the witness of smallest depth
                if v.depth < e.0.depth {
                    e.0 = v;
                }
            }
            None => {
                self.map.insert(key, (v, 1));
            }
        }
    }
    pub fn flush(self, rep: &mut Report) {
        for (_, (mut v, n)) in self.map {
            if let Some(o) = v.case.as_object_mut() {
                o.insert("occurrences".into(), json!(n));
            }
            rep.violation(v);
        }
    }
}

pub fn case_json(state: &State) -> serde_json::Value {
    json!({"label": state.label, "files": state.set.print(), "start": state.set.start, "set": serde_json::to_value(&state.set).unwrap_or_default()})
}

/// the generic outcome judgement for in-subset inputs: rejection, panic, unparsable output
pub fn judge_run(property: &str, scope: &str, state: &State, ran: &Ran, production: &str) -> Option<Violation> {
    let mk = |clause: &str, exp: &str, act: String| {
        Violation::new(property, clause, scope).ctx("production", production).exp(exp).act(act).depth(state.depth).case(case_json(state))
    };
    match &ran.outcome {
        Outcome::Ok(_) => match &ran.extract {
            Some(Err(e)) => Some(mk("out.parse", "the emitted file parses as Rust", e.clone())),
            _ => None,
        },
        Outcome::Err { phase, msg } => {
            let variant: String = msg.split(':').take(2).collect::<Vec<_>>().join(":").chars().take(60).collect();
            Some(mk("run.rejected", "an in-subset input is accepted", format!("{phase}: {msg}")).ctx("error", variant))
        }
        Outcome::Panic { phase, msg, location } => Some(mk("run.panic", "Ok", format!("panic[{phase}] at {location}: {msg}")).ctx("location", location.split("/repo/").last().unwrap_or(location))),
        o => Some(mk("run.abort", "Ok", o.brief())),
    }
}
