//! C03 (serialized values are schema-conformant, namespace-well-formed XML) and C04 (schema-valid
//! instances deserialize losslessly and round-trip). Both run the generated types for real:
//! the states are compiled with a generated driver that builds values by complete struct literals,
//! serializes them, deserializes independently printed instance documents and re-serializes.

use super::common::*;
use super::{c02, c08};
use crate::batch::{run_batch, BatchCase};
use crate::reference::{compare_api, find_struct, ApiCheck, CompKind, ExpComp, RefModel};
use crate::report::{Report, Violation};
use crate::valgen::{all_values, BuiltValue};
use crate::wire::{compare_doc, print_instance};
use serde_json::json;
use std::collections::BTreeMap;

pub struct Subject {
    pub state: usize,
    pub comp: ExpComp,
    pub type_path: String,
    pub values: Vec<BuiltValue>,
    pub capped: bool,
}

pub fn states(tier: &str) -> Vec<State> {
    let types = c02::type_alphabet();
    let mut out = vec![];
    if tier == "thorough" {
        out.extend(c02::states("quick"));
    } else {
        out.push(State { label: "seed".into(), depth: 0, set: c02::seed() });
        for p in c02::member_productions(&types, true) {
            let mut s = c02::seed();
            c02::apply_member(&mut s, &p, &types, 1);
            out.push(State { label: c02::member_label(&p, &types), depth: 1, set: s });
        }
        for (i, (l, _)) in types.iter().enumerate() {
            if l.starts_with("xs:") {
                let mut s = c02::seed();
                c02::apply_member(&mut s, &c02::MemberProd::Elem { ty: i, occ: 1, ctx: "sequence" }, &types, 1);
                c02::apply_member(&mut s, &c02::MemberProd::Attr { ty: i, required: i % 2 == 0 }, &types, 2);
                c02::apply_member(&mut s, &c02::MemberProd::Elem { ty: i, occ: 2, ctx: "sequence" }, &types, 3);
                out.push(State { label: format!("builtin {l} as optional element, attribute and repeated element"), depth: 1, set: s });
            }
        }
    }
    // an own member next to a member that is a ref= to a global element of the OTHER namespace, in both orders
    if let Some(string_ty) = types.iter().position(|(l, _)| l == "xs:string") {
        for target in ["GlobalAnonB", "GlobalTypedB", "GlobalBuiltinB"] {
            for occ in [0usize, 1] {
                for own_first in [true, false] {
                    let mut s = c02::seed();
                    let own = c02::MemberProd::Elem { ty: string_ty, occ: 0, ctx: "sequence" };
                    let foreign = c02::MemberProd::Ref { target, occ };
                    if own_first {
                        c02::apply_member(&mut s, &own, &types, 1);
                        c02::apply_member(&mut s, &foreign, &types, 2);
                    } else {
                        c02::apply_member(&mut s, &foreign, &types, 1);
                        c02::apply_member(&mut s, &own, &types, 2);
                    }
                    out.push(State { label: format!("own element {} ref={target} min={}", if own_first { "then" } else { "after" }, c02::OCCS[occ].0), depth: 2, set: s });
                }
            }
        }
    }
    // an element and an attribute of one (or nearly one) name in the holder: two fields, one wire name each
    out.extend(c02::spelling_collision_states().into_iter().filter(|s| s.label.contains("an element and an attribute")));
    // members inherited from / referring to other namespaces
    out.extend(c08::cross_namespace_states(tier));
    out.extend(c08::three_namespace_chains(tier).into_iter().filter(|s| s.depth == 2));
    out.extend(three_namespace_states());
    out
}

/// Three namespaces A -> B -> C: a member of the subject (in A) is an element of B (by ref, or
/// inherited from a base of B) whose TYPE lives in C, and B contributes no text-valued member.
pub fn three_namespace_states() -> Vec<State> {
    use crate::schema::*;
    use crate::seeds::*;
    const NS_C: &str = "http://zv.example/gamma";
    let mk = |variant: &str| {
        let mut s = c02::seed();
        let c = XsdFile { name: "c.xsd".into(), tns: NS_C.into(), prefixes: vec![("c".into(), NS_C.into())], default_ns: None, imports: vec![], comps: vec![complex("NoteC", vec![el("Text", TypeRef::b("string")), el_occ("Rank", TypeRef::b("int"), 0, Max::N(1))])] };
        s.files[1].prefixes.push(("c".into(), NS_C.into()));
        s.files[1].imports.push(Import { ns: NS_C.into(), loc: Some("c.xsd".into()) });
        s.files[1].comps.push(typed_element("RemarkB", TypeRef::n(NS_C, "NoteC")));
        s.files[1].comps.push(complex("BaseB", vec![el("RemarkInB", TypeRef::n(NS_C, "NoteC"))]));
        s.files.push(c);
        match variant {
            "ref" => holder_mut(&mut s).seq = Some(Seq::of(vec![Particle::Ref(ElemRef { target: QName::new(NS_B, "RemarkB"), min: 0, max: Max::N(1), xmlns: vec![] })])),
            "inherited" => {
                let h = holder_mut(&mut s);
                h.base = Some(QName::new(NS_B, "BaseB"));
                h.seq = Some(Seq::of(vec![el("OwnA", TypeRef::b("string"))]));
            }
            _ => {
                s.files[0].prefixes.push(("c".into(), NS_C.into()));
                holder_mut(&mut s).seq = Some(Seq::of(vec![el("Direct", TypeRef::n(NS_C, "NoteC"))]));
            }
        }
        State { label: format!("three namespaces: member of B typed in C, {variant}"), depth: 2, set: s }
    };
    vec![mk("ref"), mk("inherited"), mk("direct")]
}

/// the component whose values are exercised in a state
fn subject_of(model: &RefModel, label: &str) -> Option<ExpComp> {
    if label.starts_with("chain") {
        // the most derived type of the chain
        let mut best: Option<&ExpComp> = None;
        for c in &model.comps {
            if c.kind == CompKind::Complex && c.name.starts_with('T') && c.name[1..].parse::<u32>().is_ok() {
                if best.map(|b| b.name < c.name).unwrap_or(true) {
                    best = Some(c);
                }
            }
        }
        return best.cloned();
    }
    model.comps.iter().find(|c| c.name == "Holder").cloned()
}

fn driver_for(subj: &Subject, want_de: bool) -> String {
    let idx: Vec<usize> = (0..subj.values.len()).collect();
    driver_body(&subj.type_path, &subj.values, &idx, &subj.comp, want_de)
}

/// driver over the values `idx` (observation keys keep the original value index)
fn driver_body(type_path: &str, values: &[BuiltValue], idx: &[usize], comp: &ExpComp, want_de: bool) -> String {
    let mut d = String::from("pub fn run(out: &mut zvp::Out) {\n");
    for i in idx {
        d.push_str(&format!("    v{i}(out);\n"));
    }
    d.push_str("}\n");
    let t = type_path;
    struct S<'a> {
        comp: &'a ExpComp,
    }
    let subj = S { comp };
    // schema-valid instances whose value no literal of the carrier type can express
    if want_de {
        if let Some((label, exp)) = beyond_carrier_instance(values, comp) {
            d.push_str("pub fn run_extra(out: &mut zvp::Out) {\n");
            for style in 0..3u8 {
                let inst = print_instance(&instance_root(&exp, comp), style);
                d.push_str(&format!(
                    "    match zvp::de::<{t}>({inst:?}) {{ Ok(d) => {{ out.emit(\"xde:{style}\", \"Ok\"); out.emit(\"xre:{style}\", &zvp::ser(&d)); }} Err(e) => out.emit(\"xde:{style}\", &format!(\"Err:{{e}}\")) }}\n"
                ));
            }
            d.push_str(&format!("    out.emit(\"xlabel\", {label:?});\n}}\n"));
            d = d.replacen("pub fn run(out: &mut zvp::Out) {\n", "pub fn run(out: &mut zvp::Out) {\n    run_extra(out);\n", 1);
        }
    }
    for (i, v) in idx.iter().map(|i| (*i, &values[*i])) {
        d.push_str(&format!("fn v{i}(out: &mut zvp::Out) {{\n    let v: {t} = {};\n    let s1 = zvp::ser(&v);\n    out.emit(\"ser:{i}\", &s1);\n", v.expr));
        if want_de {
            d.push_str(&format!("    out.emit(\"dbg:{i}\", &format!(\"{{:?}}\", v));\n"));
            d.push_str(&format!(
                "    if let Some(x) = s1.strip_prefix(\"Ok:\") {{ match zvp::de::<{t}>(x) {{ Ok(d) => out.emit(\"fix:{i}\", &zvp::ser(&d)), Err(e) => out.emit(\"fix:{i}\", &format!(\"Err:de:{{e}}\")) }} }}\n"
            ));
            for style in 0..3u8 {
                let inst = print_instance(&instance_root(&v.expected, subj.comp), style);
                d.push_str(&format!(
                    "    match zvp::de::<{t}>({inst:?}) {{ Ok(d) => {{ out.emit(\"de:{i}:{style}\", &format!(\"Ok:{{:?}}\", d)); out.emit(\"re:{i}:{style}\", &zvp::ser(&d)); }} Err(e) => out.emit(\"de:{i}:{style}\", &format!(\"Err:{{e}}\")) }}\n"
                ));
            }
        }
        d.push_str("}\n");
    }
    d
}

/// For a subject whose first element member is of the xs:integer family (carried in i32) or
/// xs:decimal (carried in f64): an instance with a schema-valid value beyond the carrier.
pub fn beyond_carrier_instance(values: &[BuiltValue], comp: &ExpComp) -> Option<(String, crate::wire::ExpElem)> {
    use crate::reference::ExpTy;
    use crate::wire::Lex;
    for m in comp.members.iter().filter(|m| !m.is_attr) {
        let ExpTy::Builtin(_, xsd) = &m.ty else { continue };
        let big: Option<Lex> = match xsd.as_str() {
            "integer" | "nonNegativeInteger" | "positiveInteger" => Some(Lex::Int(2147483648)),
            "negativeInteger" | "nonPositiveInteger" => Some(Lex::Int(-2147483649)),
            "decimal" => Some(Lex::Str("12345678901234567890.123456789".into())),
            _ => None,
        };
        let Some(big) = big else { continue };
        for v in values {
            if let Some(pos) = v.expected.children.iter().position(|c| c.local == m.wire) {
                let mut e = v.expected.clone();
                e.children[pos].text = Some(big.clone());
                return Some((format!("xs:{xsd}"), e));
            }
        }
    }
    None
}

/// the instance root carries the struct's element name in its namespace
fn instance_root(exp: &crate::wire::ExpElem, comp: &ExpComp) -> crate::wire::ExpElem {
    let mut e = exp.clone();
    e.ns = Some(comp.ns.clone());
    e.local = comp.name.clone();
    e
}

pub struct Prepared {
    pub states: Vec<State>,
    pub transitions: u64,
    pub subjects: Vec<Subject>,
    pub masked: u64,
    pub cases: Vec<BatchCase>,
    pub problems: Vec<String>,
}

pub fn prepare(property: &str, tier: &str, want_de: bool, agg: &mut Agg) -> Prepared {
    let (states, transitions) = dedup_states(states(tier));
    let ran = run_states(&states);
    let mut subjects = vec![];
    let mut cases = vec![];
    let mut masked = 0u64;
    let mut problems = vec![];
    let cap = if tier == "quick" { 24 } else { 64 };
    for (i, (st, r)) in states.iter().zip(ran.iter()).enumerate() {
        if let Some(v) = judge_run(property, "values", st, r, "") {
            // no output: no value of the generated types can be conformant / round-trip
            agg.add(v);
            masked += 1;
            continue;
        }
        let ex = r.extract.as_ref().unwrap().as_ref().unwrap();
        let model = RefModel::build(&st.set);
        let Some(comp) = subject_of(&model, &st.label) else {
            masked += 1;
            continue;
        };
        // masked when the subject (or anything it uses) is not API-conformant: C02/C08 report that
        let name = comp.name.clone();
        let only = |c: &ExpComp| c.name == name;
        let api = compare_api(ex, &model, &ApiCheck { property, scope: "values", depth: st.depth, member_namespaces: false }, Some(&only));
        if !api.is_empty() {
            // The generated type does not mirror the schema (C02/C08 say how): no literal can be typed
            // from the reference and schema-valid instances cannot be carried. Reported here too, under
            // its own clause, with the API discrepancy as context.
            let first = &api[0];
            let mut v = Violation::new(property, "api.nonconformant", "values").ctx("api.clause", &first.clause).exp(format!("a struct that mirrors the schema ({})", first.expected)).act(&first.actual).depth(st.depth).case(case_json(st));
            for (k, val) in &first.context {
                if k.starts_with("member.") || k == "maxOccurs" || k == "minOccurs" || k == "seq.maxOccurs" || k == "seq.minOccurs" {
                    v = v.ctx(k, val);
                }
            }
            if st.label.contains("annotation inside the sequence") {
                v = v.ctx("documentation.position", "first-child-of-sequence-or-extension");
            }
            agg.add(v);
            masked += 1;
            continue;
        }
        let Some(sinfo) = find_struct(ex, &comp.ns, &comp.name).first().copied() else {
            masked += 1;
            continue;
        };
        let (values, probs, capped) = all_values(ex, &model, &comp, sinfo, cap);
        if !probs.is_empty() {
            problems.push(format!("{}: {:?}", st.label, probs));
            masked += 1;
            continue;
        }
        let subj = Subject { state: i, comp, type_path: format!("zg::{}", sinfo.path().join("::")), values, capped };
        cases.push(BatchCase { id: format!("s{i}"), emitted: r.outcome.text().unwrap().to_string(), driver: Some(driver_for(&subj, want_de)) });
        subjects.push(subj);
    }
    Prepared { states, transitions, subjects, masked, cases, problems }
}

fn lines_map(lines: &[serde_json::Value]) -> BTreeMap<String, String> {
    let mut m = BTreeMap::new();
    for l in lines {
        if let (Some(k), Some(v)) = (l["k"].as_str(), l["v"].as_str()) {
            m.insert(k.to_string(), v.to_string());
        }
    }
    m
}

fn value_class(v: &BuiltValue) -> String {
    // describe by the expected infoset: number of children / presence
    format!("children={} attrs={}", v.expected.children.len(), v.expected.attrs.len())
}

pub fn check_c03(tier: &str) -> i32 {
    let mut rep = Report::new("C03", tier, "model_checking");
    let mut agg = Agg::new();
    let p = prepare("C03", tier, true, &mut agg);
    let res = run_batch("c03", &p.cases, 60_000);
    let mut serializations = 0u64;
    let mut conformant_docs = 0u64;
    for subj in &p.subjects {
        let st = &p.states[subj.state];
        let id = format!("s{}", subj.state);
        if let Some(ds) = res.compile_errors.get(&id) {
            let d = &ds[0];
            agg.add(Violation::new("C03", "out.compile", "values").ctx("in_driver", d.in_driver).ctx("code", &d.code).exp("the state compiles with complete struct literals typed from the reference").act(format!("{} | {}", d.message, d.snippet)).depth(st.depth).case(case_json(st)));
            continue;
        }
        if let Some(f) = res.run_failures.get(&id) {
            agg.add(Violation::new("C03", "run.failure", "values").ctx("kind", f.split(':').next().unwrap_or("")).exp("driver runs to completion").act(f).depth(st.depth).case(case_json(st)));
        }
        let lm = lines_map(res.lines.get(&id).map(|v| v.as_slice()).unwrap_or(&[]));
        for (i, v) in subj.values.iter().enumerate() {
            let Some(s) = lm.get(&format!("ser:{i}")) else { continue };
            serializations += 1;
            let mk = |clause: &str, tag: &str, exp: String, act: String| {
                let mut c = case_json(st);
                c["value_expr"] = json!(v.expr);
                c["serialized"] = json!(s);
                Violation::new("C03", clause, "values").ctx("member", tag).ctx("subject", if subj.comp.name == "Holder" { "holder" } else { "derived" }).exp(exp).act(act).depth(st.depth).case(c)
            };
            match s.strip_prefix("Ok:") {
                None => agg.add(mk("ser.error", "", "Ok".into(), s.clone())),
                Some(xml) => {
                    let diffs = compare_doc(xml, &v.expected);
                    if diffs.is_empty() {
                        conformant_docs += 1;
                    }
                    for d in diffs {
                        agg.add(mk(d.clause, &d.tag, format!("{} at {}", d.expected, d.path), d.actual));
                    }
                }
            }
            if i == 1 {
                rep.sample(json!({"state": st.label, "value": v.expr, "serialized": s}));
            }
            let _ = value_class(v);
        }
    }
    agg.flush(&mut rep);
    rep.set("states", json!(p.states.len()));
    rep.set("transitions", json!(p.transitions));
    rep.set("traces_validated_against_impl", json!(p.subjects.len()));
    rep.set("states_masked_not_api_conformant", json!(p.masked));
    rep.set("serializations_judged", json!(serializations));
    rep.set("documents_fully_conformant", json!(conformant_docs));
    rep.set("value_product_capped_states", json!(p.subjects.iter().filter(|s| s.capped).count()));
    rep.set("value_generation_problems", json!(p.problems));
    rep.set("batch", json!({"packages": res.packages, "cache_hits": res.cache_hits, "build_s": res.build_secs, "run_s": res.run_secs}));
    rep.set("exhaustive", json!(true));
    rep.set("bound", json!("states: seed + one member production (quick: reduced alphabet + every builtin; thorough: all C02 depth-1 states) + extension chains across namespaces; values: full product of the top-level members' alternatives (Option absent/present, Vec 0/1/3 items, numeric extremes, floats incl. NaN, escaping and non-ASCII strings), capped per state (cap reported)"));
    rep.assume("expected infoset from the reference model (DESIGN 3.6); roxmltree decides namespace well-formedness");
    rep.assume("the root element of a struct generated for a type is not judged (no declaration in the schema)");
    rep.finish()
}

/// one C04 discrepancy: (value index, style label, clause, expected, actual)
type Disc = (usize, &'static str, &'static str, String, String);

const STYLES: [&str; 3] = ["prefixed", "default-namespace", "redeclared-default"];

/// judge the deserialization / round-trip observations of one subject
fn judge_c04(lm: &BTreeMap<String, String>, values: &[BuiltValue], idx: &[usize], comp: &ExpComp, counters: &mut (u64, u64, u64)) -> Vec<Disc> {
    let mut out: Vec<Disc> = vec![];
    for &i in idx {
        let v = &values[i];
        let dbg = lm.get(&format!("dbg:{i}")).cloned().unwrap_or_default();
        if let (Some(s1), Some(s2)) = (lm.get(&format!("ser:{i}")), lm.get(&format!("fix:{i}"))) {
            counters.2 += 1;
            if s1 != s2 {
                out.push((i, "own-serialization", "fixpoint", crate::report::trunc(s1, 300), crate::report::trunc(s2, 300)));
            }
        }
        for style in 0..3u8 {
            let Some(d) = lm.get(&format!("de:{i}:{style}")) else { continue };
            counters.0 += 1;
            let sname = STYLES[style as usize];
            let inst = print_instance(&instance_root(&v.expected, comp), style);
            match d.strip_prefix("Ok:") {
                None => out.push((i, sname, "de.error", format!("deserializes: {}", crate::report::trunc(&inst, 400)), d.clone())),
                Some(got) => {
                    let mut good = true;
                    if got != dbg {
                        good = false;
                        out.push((i, sname, "de.value", format!("{} (from {})", crate::report::trunc(&dbg, 300), crate::report::trunc(&inst, 300)), crate::report::trunc(got, 300)));
                    }
                    if let Some(re) = lm.get(&format!("re:{i}:{style}")) {
                        match re.strip_prefix("Ok:") {
                            Some(xml) => {
                                // the serializer's own conformance is C03's business: report a re-serialization only
                                // when it differs from the direct serialization of the same value AND from the instance
                                let diffs = compare_doc(xml, &v.expected);
                                if let Some(s1) = lm.get(&format!("ser:{i}")) {
                                    if s1 != re && !diffs.is_empty() {
                                        good = false;
                                        out.push((i, sname, "de.reserialize", crate::report::trunc(s1, 300), crate::report::trunc(re, 300)));
                                    }
                                }
                            }
                            None => {
                                good = false;
                                out.push((i, sname, "de.reserialize", "Ok".into(), re.clone()));
                            }
                        }
                    }
                    if good {
                        counters.1 += 1;
                    }
                }
            }
        }
    }
    out
}

pub fn check_c04(tier: &str) -> i32 {
    let mut rep = Report::new("C04", tier, "model_checking");
    let mut agg = Agg::new();
    let p = prepare("C04", tier, true, &mut agg);
    let res = run_batch("c03", &p.cases, 60_000);
    let mut counters = (0u64, 0u64, 0u64);
    // phase 1: the generated types
    let mut found: Vec<(usize, Vec<Disc>)> = vec![];
    for (si, subj) in p.subjects.iter().enumerate() {
        let id = format!("s{}", subj.state);
        if res.compile_errors.contains_key(&id) {
            continue; // reported by C03
        }
        let lm = lines_map(res.lines.get(&id).map(|v| v.as_slice()).unwrap_or(&[]));
        let idx: Vec<usize> = (0..subj.values.len()).collect();
        let ds = judge_c04(&lm, &subj.values, &idx, &subj.comp, &mut counters);
        if let Some(v) = subj.values.get(1) {
            if let Some(d) = lm.get("de:1:1") {
                rep.sample(json!({"state": p.states[subj.state].label, "instance": print_instance(&instance_root(&v.expected, &subj.comp), 1), "deserialized": d}));
            }
        }
        if !ds.is_empty() {
            found.push((si, ds));
        }
        // instances beyond the carrier type (judged directly: the reference structs use the same documented carriers)
        if let Some((label, exp)) = beyond_carrier_instance(&subj.values, &subj.comp) {
            for style in 0..3u8 {
                let Some(d) = lm.get(&format!("xde:{style}")) else { continue };
                counters.0 += 1;
                let st = &p.states[subj.state];
                let mk = |clause: &str, e: String, a: String| Violation::new("C04", clause, "instances").ctx("value", "beyond-carrier").ctx("type", &label).ctx("style", STYLES[style as usize]).exp(e).act(a).depth(st.depth).case(case_json(st));
                let inst = print_instance(&instance_root(&exp, &subj.comp), style);
                if !d.starts_with("Ok") {
                    agg.add(mk("de.error", format!("deserializes: {}", crate::report::trunc(&inst, 300)), d.clone()));
                } else if let Some(re) = lm.get(&format!("xre:{style}")) {
                    let diffs = re.strip_prefix("Ok:").map(|x| compare_doc(x, &exp)).unwrap_or_default();
                    if !re.starts_with("Ok:") || !diffs.is_empty() {
                        agg.add(mk("de.reserialize", format!("same value as {}", crate::report::trunc(&inst, 300)), crate::report::trunc(re, 300)));
                    } else {
                        counters.1 += 1;
                    }
                }
            }
        }
    }
    // phase 2: the identical check on independently written reference structs, for the failing
    // (state, value) pairs only; a discrepancy is excluded only if the reference fails the same way
    let mut ref_cases = vec![];
    let mut ref_subjects: Vec<(usize, Vec<usize>, Vec<BuiltValue>, ExpComp)> = vec![];
    for (si, ds) in &found {
        let subj = &p.subjects[*si];
        let st = &p.states[subj.state];
        let model = RefModel::build(&st.set);
        let code = crate::reference::print_reference_structs(&model);
        let Ok(rex) = crate::extract::extract(&code) else { continue };
        let Some(rst) = find_struct(&rex, &subj.comp.ns, &subj.comp.name).first().copied() else { continue };
        let mut idx: Vec<usize> = ds.iter().map(|d| d.0).collect();
        idx.sort();
        idx.dedup();
        // same choice vectors, reference paths
        let mut rvalues: Vec<BuiltValue> = vec![];
        for v in &subj.values {
            let (bv, _) = crate::valgen::value_for_choices(&rex, &model, &subj.comp, rst, &v.choices, "zr");
            rvalues.push(bv);
        }
        let body = driver_body(&format!("zr::{}", rst.path().join("::")), &rvalues, &idx, &subj.comp, true);
        let driver = format!("pub mod zr {{\n{code}\n}}\n{body}");
        ref_cases.push(BatchCase { id: format!("r{}", subj.state), emitted: "// reference structs live in the driver\n".into(), driver: Some(driver) });
        ref_subjects.push((*si, idx, rvalues, subj.comp.clone()));
    }
    let rres = run_batch("c04ref", &ref_cases, 60_000);
    let mut excluded: BTreeMap<String, u64> = BTreeMap::new();
    let mut ref_problems = vec![];
    for (si, ds) in &found {
        let subj = &p.subjects[*si];
        let st = &p.states[subj.state];
        let rid = format!("r{}", subj.state);
        let mut rdisc: Vec<Disc> = vec![];
        if let Some(e) = rres.compile_errors.get(&rid) {
            ref_problems.push(format!("{}: reference structs do not compile: {}", st.label, e[0].message));
        } else if let Some((_, idx, rvalues, comp)) = ref_subjects.iter().find(|r| r.0 == *si) {
            let lm = lines_map(rres.lines.get(&rid).map(|v| v.as_slice()).unwrap_or(&[]));
            let mut c2 = (0, 0, 0);
            rdisc = judge_c04(&lm, rvalues, idx, comp, &mut c2);
        }
        for (i, style, clause, exp, act) in ds {
            let same_on_reference = rdisc.iter().any(|r| r.0 == *i && r.1 == *style && r.2 == *clause);
            let v = &subj.values[*i];
            let member = v.expected.children.iter().map(|c| c.tag.clone()).chain(v.expected.attrs.iter().map(|_| "attribute".to_string())).next().unwrap_or_else(|| "empty".into());
            if same_on_reference {
                let shape = if v.expr.contains("\"  padded  \"") { "text with leading/trailing blanks" } else { "other" };
                *excluded.entry(format!("{clause} | {member} | {style} | {shape}")).or_insert(0) += 1;
                continue;
            }
            let mut c = case_json(st);
            c["value_expr"] = json!(v.expr);
            agg.add(Violation::new("C04", clause, "instances").ctx("member", &member).ctx("style", style).ctx("subject", if subj.comp.name == "Holder" { "holder" } else { "derived" }).exp(exp).act(act).depth(st.depth).case(c));
        }
    }
    agg.flush(&mut rep);
    rep.set("states", json!(p.states.len()));
    rep.set("transitions", json!(p.transitions));
    rep.set("traces_validated_against_impl", json!(p.subjects.len()));
    rep.set("states_masked_not_api_conformant", json!(p.masked));
    rep.set("instances_judged", json!(counters.0));
    rep.set("instances_lossless", json!(counters.1));
    rep.set("fixpoints_judged", json!(counters.2));
    rep.set("excluded_because_reference_structs_fail_identically", json!(excluded));
    rep.set("reference_struct_problems", json!(ref_problems));
    rep.set("batch", json!({"packages": res.packages, "cache_hits": res.cache_hits, "build_s": res.build_secs, "run_s": res.run_secs, "reference_round": {"cases": ref_cases.len(), "build_s": rres.build_secs}}));
    rep.set("exhaustive", json!(true));
    rep.set("bound", json!("the states and values of C03; per value three instance documents printed by the harness from the expected infoset (fresh prefixes; default namespace + prefixes; default namespace re-declared per element), never by serializing with the generated types; serialize-deserialize-serialize fixpoint per value"));
    rep.assume("instance documents are printed from the reference infoset; lexical forms are the canonical XSD ones");
    rep.assume("exclusion rule: a (state, value, style, clause) is dropped only when hand-rule reference structs printed from the reference model fail the identical observation; they are listed with counts in the evidence");
    rep.finish()
}
