//! C17 (fault enumeration over configurations and failure stages): the CLI writes the library's
//! bytes for every spelling of the input path, to the right place, without stale bytes; when
//! generation fails at any stage it exits non-zero and leaves a pre-existing output untouched.

use crate::report::{machinery, Report, Violation};
use crate::runner::{run_inproc, Case, Outcome};
use rayon::prelude::*;
use serde_json::json;
use std::path::{Path, PathBuf};
use std::process::Command;

pub const CLI: &str = "/verif/work/target-cli/debug/zeep";

#[derive(Clone, Debug)]
struct InputKind {
    label: &'static str,
    /// files of the input directory (name, bytes)
    files: Vec<(String, Vec<u8>)>,
    start: String,
    /// the start file exists on disk
    start_exists: bool,
    should_succeed: bool,
}

fn b(s: String) -> Vec<u8> {
    s.into_bytes()
}

fn input_kinds() -> Vec<InputKind> {
    let s1 = crate::seeds::s1().to_case();
    let s0 = crate::seeds::kitchen_xsd().to_case();
    let w = crate::seeds::kitchen_wsdl().to_case();
    let to_files = |c: &Case| c.files.iter().map(|(n, t)| (n.clone(), b(t.clone()))).collect::<Vec<_>>();
    let mut v = vec![
        InputKind { label: "success-xsd", files: to_files(&s1), start: s1.start.clone(), start_exists: true, should_succeed: true },
        InputKind { label: "success-xsd-imports", files: to_files(&s0), start: s0.start.clone(), start_exists: true, should_succeed: true },
        InputKind { label: "success-wsdl", files: to_files(&w), start: w.start.clone(), start_exists: true, should_succeed: true },
    ];
    {
        // the imported file imports the start file back (cycle through the start file)
        let mut set = crate::seeds::kitchen_xsd();
        set.files[1].prefixes.push(("a".into(), crate::seeds::NS_A.into()));
        set.files[1].imports.push(crate::schema::Import { ns: crate::seeds::NS_A.into(), loc: Some("a.xsd".into()) });
        let c = set.to_case();
        v.push(InputKind { label: "success-xsd-import-cycle-through-start", files: to_files(&c), start: c.start.clone(), start_exists: true, should_succeed: true });
    }
    // file-name forms: no extension at all, several dots, a hidden-file style name
    for (label, name) in [("success-xsd-extensionless-name", "service"), ("success-xsd-name-with-two-dots", "svc.v1.xsd"), ("success-xsd-name-with-leading-dot", ".hidden.xsd")] {
        v.push(InputKind { label, files: vec![(name.into(), to_files(&s1)[0].1.clone())], start: name.into(), start_exists: true, should_succeed: true });
    }
    // unreferenced siblings that are not regular files: a dangling link, a link to a directory, a link to the start file
    {
        let mut f = to_files(&s1);
        f.push(("dangling.xsd".into(), b("@@symlink:/nonexistent/zv-target".to_string())));
        f.push(("dirlink.xsd".into(), b("@@symlink:.".to_string())));
        f.push(("filelink.xsd".into(), b(format!("@@symlink:{}", s1.start))));
        v.push(InputKind { label: "success-xsd-next-to-symlink-siblings", files: f, start: s1.start.clone(), start_exists: true, should_succeed: true });
    }
    // an imported sibling that is a symbolic link to a regular file in another directory
    {
        let mut f: Vec<(String, Vec<u8>)> = vec![];
        for (n, bytes) in to_files(&s0) {
            if n == s0.start {
                f.push((n, bytes));
            } else {
                f.push((format!("../shared-{n}"), bytes));
                f.push((n.clone(), b(format!("@@symlink:../shared-{n}"))));
            }
        }
        v.push(InputKind { label: "success-xsd-imports-a-symlinked-sibling", files: f, start: s0.start.clone(), start_exists: true, should_succeed: true });
    }
    // generation succeeds, but the output cannot be written to the end (file-size limit, as with a full disk)
    v.push(InputKind { label: "output-device-refuses", files: to_files(&s0), start: s0.start.clone(), start_exists: true, should_succeed: false });
    v.push(InputKind { label: "missing-input", files: vec![("other.xsd".into(), to_files(&s1)[0].1.clone())], start: "a.xsd".into(), start_exists: false, should_succeed: false });
    {
        let mut f = to_files(&s1);
        f.push(("zz-latin1.xsd".into(), vec![0x3c, 0x61, 0x3e, 0xe9, 0xff, 0x3c, 0x2f, 0x61, 0x3e]));
        v.push(InputKind { label: "non-utf8-sibling", files: f, start: s1.start.clone(), start_exists: true, should_succeed: false });
    }
    {
        let mut f = to_files(&s1);
        let t = String::from_utf8(f[0].1.clone()).unwrap();
        f[0].1 = b(t.replace("</xs:schema>", "</xs:schemaX>"));
        v.push(InputKind { label: "malformed-xml", files: f, start: s1.start.clone(), start_exists: true, should_succeed: false });
    }
    {
        let mut f = to_files(&s0);
        f.retain(|x| x.0 != "b.xsd");
        v.push(InputKind { label: "unresolved-import", files: f, start: s0.start.clone(), start_exists: true, should_succeed: false });
    }
    {
        // a message part that refers to an element that does not exist
        let mut f = to_files(&w);
        let t = String::from_utf8(f[0].1.clone()).unwrap();
        f[0].1 = b(t.replacen("element=\"tns:GetThing\"", "element=\"tns:ZvNoSuchElement\"", 1));
        v.push(InputKind { label: "unresolved-reference", files: f, start: w.start.clone(), start_exists: true, should_succeed: false });
    }
    {
        // a message part that refers to a global ATTRIBUTE (until fix c87dcc0 this failed while WRITING)
        let mut f = to_files(&w);
        let t = String::from_utf8(f[0].1.clone()).unwrap();
        let t = t.replacen("</xs:schema>", "  <xs:attribute name=\"ZvGlobalAttr\" type=\"xs:string\"/>\n    </xs:schema>", 1);
        f[0].1 = b(t.replacen("element=\"tns:GetThing\"", "element=\"tns:ZvGlobalAttr\"", 1));
        v.push(InputKind { label: "part-refers-to-global-attribute", files: f, start: w.start.clone(), start_exists: true, should_succeed: false });
    }
    {
        let mut f = to_files(&w);
        let t = String::from_utf8(f[0].1.clone()).unwrap();
        f[0].1 = b(t.replace("use=\"literal\"", "use=\"encoded\""));
        v.push(InputKind { label: "unsupported-binding", files: f, start: w.start.clone(), start_exists: true, should_succeed: false });
    }
    v
}

const SPELLINGS: [&str; 5] = ["absolute", "relative-with-dir", "dot-slash", "bare-name-in-cwd", "dir-dotdot-dir"];
const OUTPUT_MODES: [&str; 2] = ["explicit", "default"];
const PREEXISTING: [&str; 5] = ["absent", "shorter", "longer", "expected-output-plus-tail", "expected-output-cut-short"];
const SENTINEL: &str = "\n// ZV-STALE-SENTINEL-TAIL\n";

struct Row {
    kind: usize,
    spelling: &'static str,
    output_mode: &'static str,
    pre: &'static str,
}

struct RowResult {
    exit: Option<i32>,
    out_bytes: Option<Vec<u8>>,
    pre_bytes: Option<Vec<u8>>,
    stderr: String,
    cmdline: String,
}

fn run_row(idx: usize, row: &Row, kind: &InputKind, expected: Option<&Vec<u8>>) -> RowResult {
    let base = PathBuf::from(format!("/verif/work/c17/r{idx}"));
    let _ = std::fs::remove_dir_all(&base);
    // every directory of the path carries a dot, so "the last dot of the argument" is not always the extension's
    let indir = base.join("proj").join("in.d");
    let outdir = base.join("proj").join("out");
    std::fs::create_dir_all(&indir).unwrap_or_else(|e| machinery(&format!("mkdir: {e}")));
    std::fs::create_dir_all(&outdir).unwrap_or_else(|e| machinery(&format!("mkdir: {e}")));
    for (n, bytes) in &kind.files {
        if let Some(target) = bytes.strip_prefix(b"@@symlink:") {
            std::os::unix::fs::symlink(String::from_utf8_lossy(target).as_ref(), indir.join(n)).unwrap_or_else(|e| machinery(&format!("symlink: {e}")));
        } else {
            std::fs::write(indir.join(n), bytes).unwrap_or_else(|e| machinery(&format!("write: {e}")));
        }
    }
    let (cwd, input_arg): (PathBuf, String) = match row.spelling {
        "absolute" => (base.clone(), indir.join(&kind.start).to_string_lossy().to_string()),
        "relative-with-dir" => (base.join("proj"), format!("in.d/{}", kind.start)),
        "dot-slash" => (base.join("proj"), format!("./in.d/{}", kind.start)),
        "bare-name-in-cwd" => (indir.clone(), kind.start.clone()),
        _ => (base.join("proj"), format!("in.d/../in.d/{}", kind.start)),
    };
    let stem = Path::new(&kind.start).with_extension("rs");
    let out_path: PathBuf = if row.output_mode == "explicit" { outdir.join("gen.rs") } else { indir.join(&stem) };
    let pre_bytes: Option<Vec<u8>> = match row.pre {
        "absent" => None,
        "shorter" => Some(b("// old\n".to_string())),
        // an old file that BEGINS with what is about to be written (code appended by hand), or is a prefix of it
        "expected-output-plus-tail" => Some(expected.map(|e| [e.as_slice(), SENTINEL.as_bytes()].concat()).unwrap_or_else(|| b(format!("// old\n{SENTINEL}")))),
        "expected-output-cut-short" => Some(expected.map(|e| e[..e.len() * 2 / 3].to_vec()).unwrap_or_else(|| b("// ol".to_string()))),
        _ => Some(b(format!("{}{}", "// old generated file, much longer than any output of the generator\n".repeat(3000), SENTINEL))),
    };
    if let Some(p) = &pre_bytes {
        std::fs::write(&out_path, p).unwrap_or_else(|e| machinery(&format!("write: {e}")));
    }
    // the kind "output-device-refuses" runs the tool under a file-size limit of 4 KiB (ulimit -f 8), so
    // that writing the (much larger) output fails after a few blocks
    let limited = kind.label == "output-device-refuses";
    let mut cmd = if limited {
        let mut c = Command::new("sh");
        c.arg("-c").arg("ulimit -f 8; exec \"$0\" \"$@\"").arg(CLI);
        c
    } else {
        Command::new(CLI)
    };
    cmd.current_dir(&cwd).arg("--input").arg(&input_arg);
    let mut cmdline = format!("cd {} && {}zeep --input {}", cwd.display(), if limited { "ulimit -f 8; " } else { "" }, input_arg);
    if row.output_mode == "explicit" {
        // the explicit output path is given relative to cwd for the relative spellings
        let o = if row.spelling == "absolute" { out_path.to_string_lossy().to_string() } else { pathdiff(&cwd, &out_path) };
        cmd.arg("--output").arg(&o);
        cmdline.push_str(&format!(" --output {o}"));
    }
    cmd.env_remove("RUST_LOG").env("RUST_BACKTRACE", "0");
    let out = cmd.output().unwrap_or_else(|e| machinery(&format!("cannot run {CLI}: {e}")));
    let out_bytes = std::fs::read(&out_path).ok();
    let _ = std::fs::remove_dir_all(&base);
    RowResult { exit: out.status.code(), out_bytes, pre_bytes, stderr: String::from_utf8_lossy(&out.stderr).chars().take(300).collect(), cmdline }
}

fn pathdiff(from_dir: &Path, to: &Path) -> String {
    // both are under the same base: climb up from from_dir to the common prefix
    let f: Vec<_> = from_dir.components().collect();
    let t: Vec<_> = to.components().collect();
    let mut i = 0;
    while i < f.len() && i < t.len() && f[i] == t[i] {
        i += 1;
    }
    let mut p = PathBuf::new();
    for _ in i..f.len() {
        p.push("..");
    }
    for c in &t[i..] {
        p.push(c.as_os_str());
    }
    p.to_string_lossy().to_string()
}

pub fn check(tier: &str) -> i32 {
    let mut rep = Report::new("C17", tier, "fault_enumeration");
    if !Path::new(CLI).exists() {
        machinery(&format!("{CLI} missing (the check script builds it)"));
    }
    let kinds = input_kinds();
    // library outputs for the success kinds (in-process, same contents)
    let mut lib_out: Vec<Option<Vec<u8>>> = vec![];
    for k in &kinds {
        if k.should_succeed {
            // (a file stored as ../shared-<name> is what the link <name> points to: the library sees it under <name>)
            let case = Case { files: k.files.iter().filter(|(_, bts)| !bts.starts_with(b"@@symlink:")).map(|(n, bts)| (n.trim_start_matches("../shared-").to_string(), String::from_utf8_lossy(bts).to_string())).collect(), start: k.start.clone() };
            match run_inproc(&case) {
                Outcome::Ok(s) => lib_out.push(Some(s.into_bytes())),
                o => {
                    // the library itself rejects the input: then the row is a failure row
                    rep.set(&format!("library_rejects_{}", k.label), json!(o.brief()));
                    lib_out.push(None);
                }
            }
        } else {
            lib_out.push(None);
        }
    }
    let mut rows = vec![];
    for (ki, _) in kinds.iter().enumerate() {
        for sp in SPELLINGS {
            for om in OUTPUT_MODES {
                for pre in PREEXISTING {
                    rows.push(Row { kind: ki, spelling: sp, output_mode: om, pre });
                }
            }
        }
    }
    let results: Vec<RowResult> = rows.par_iter().enumerate().map(|(i, r)| run_row(i, r, &kinds[r.kind], lib_out[r.kind].as_ref())).collect();
    let _ = std::fs::remove_dir_all("/verif/work/c17");
    let mut distinct = std::collections::BTreeSet::new();
    for (row, res) in rows.iter().zip(results.iter()) {
        let kind = &kinds[row.kind];
        distinct.insert(format!("{}|{}|{}|{}", kind.label, row.spelling, row.output_mode, row.pre));
        let mk = |clause: &str, exp: String, act: String| {
            Violation::new("C17", clause, "cli-matrix")
                .ctx("spelling", row.spelling)
                .ctx("output_mode", row.output_mode)
                .ctx("preexisting", row.pre)
                .ctx("input", kind.label)
                .exp(exp)
                .act(act)
                .depth(1)
                .case(json!({"cmdline": res.cmdline, "input": kind.label, "spelling": row.spelling, "output_mode": row.output_mode, "preexisting": row.pre, "stderr": res.stderr}))
        };
        let expect_success = kind.should_succeed && lib_out[row.kind].is_some();
        rep.outcome("exit_code", format!("{:?}", res.exit));
        if expect_success {
            let lib = lib_out[row.kind].as_ref().unwrap();
            if res.exit != Some(0) {
                rep.violation(mk("cli.exit", "exit 0".into(), format!("exit {:?}: {}", res.exit, res.stderr)));
                continue;
            }
            match &res.out_bytes {
                None => rep.violation(mk("cli.bytes", "output file at the expected path".into(), "no file".into())),
                Some(o) if o == lib => {}
                Some(o) => {
                    let stale = o.windows(SENTINEL.len()).any(|w| w == SENTINEL.as_bytes());
                    if stale {
                        rep.violation(mk("cli.stale", "no bytes of the previous longer file".into(), "sentinel tail of the old file still present".into()));
                    } else {
                        rep.violation(mk("cli.bytes", format!("{} bytes identical to the library output", lib.len()), format!("{} bytes, different", o.len())));
                    }
                }
            }
        } else {
            if res.exit == Some(0) {
                rep.violation(mk("cli.exit", "non-zero exit status".into(), "exit 0".into()));
            }
            if res.out_bytes != res.pre_bytes {
                let act = match (&res.pre_bytes, &res.out_bytes) {
                    (None, Some(o)) => format!("a new output file of {} bytes was left behind", o.len()),
                    (Some(p), Some(o)) => format!("pre-existing {} bytes replaced by {} bytes", p.len(), o.len()),
                    (Some(_), None) => "pre-existing output deleted".to_string(),
                    _ => String::new(),
                };
                rep.violation(mk("cli.clobbered", "pre-existing output byte-for-byte unchanged (or still absent)".into(), act));
            }
        }
    }
    if let Some((row, res)) = rows.iter().zip(results.iter()).next() {
        rep.sample(json!({"cmdline": res.cmdline, "input": kinds[row.kind].label, "preexisting": row.pre, "exit": res.exit}));
    }
    if let Some((row, res)) = rows.iter().zip(results.iter()).find(|(r, _)| kinds[r.kind].label == "unresolved-import" && r.pre == "longer") {
        rep.sample(json!({"cmdline": res.cmdline, "input": kinds[row.kind].label, "preexisting": row.pre, "exit": res.exit, "stderr": res.stderr}));
    }
    rep.set("evaluations", json!(rows.len()));
    rep.set("distinct_nontrivial", json!(distinct.len()));
    rep.set("rule", json!("complete product: 17 input outcomes (one of the failures being an output that cannot be written to the end: the tool runs under a 4 KiB file-size limit; 9 succeed, one importing a sibling that is a symlink to a file in another directory, one next to sibling *.xsd entries that are a dangling symlink, a symlink to a directory and a symlink to the start file, one of them with an import cycle through the start file, three with file-name forms: no extension, two dots, leading dot; the input directory's name contains a dot; 7 fail at successive stages: missing input, non-UTF-8 sibling, malformed XML, unresolved import, unresolved reference, a part that refers to a global attribute, unsupported binding) x 5 path spellings x {--output, default .rs path} x pre-existing output {absent, shorter, longer with sentinel tail, the expected output followed by a sentinel tail, the first two thirds of the expected output}; every row is one process run of the real zeep binary in a scratch directory; all rows are distinct and non-trivial"));
    rep.set("exhaustive", json!(true));
    rep.assume("the zeep binary is rebuilt from /repo/zeep by the check script before the run");
    rep.assume("success rows are compared with the library output computed in-process from the same file contents");
    rep.finish()
}

pub fn replay(v: &Violation) -> i32 {
    println!("replay C17: {}", v.case["cmdline"]);
    println!("the CLI matrix runs in seconds; re-running it is the replay");
    check("quick")
}
