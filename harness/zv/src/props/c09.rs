//! C09: a QName reference denotes the global component of that name in the namespace bound to the
//! prefix, whatever else carries the same local name, in whatever order and file. The local name
//! `Thing` is deliberately reused across namespaces and component kinds; every carrier has a
//! uniquely named marker member.

use super::common::*;
use crate::reference::{compare_api, ApiCheck, ExpComp, RefModel};
use crate::report::{Report, Violation};
use crate::schema::*;
use crate::seeds::*;
use serde_json::json;

const NS_T: &str = "http://zv.example/types";

#[derive(Clone, Copy, Debug, PartialEq)]
enum Kind {
    Type,
    Base,
    Ref,
}

#[derive(Clone, Copy, Debug, PartialEq)]
enum Prefixing {
    Own,
    /// the prefix `tns` is bound to A in a.xsd and to B in b.xsd
    TnsClash,
    /// unprefixed through xmlns="A"
    Default,
    /// the start file's default namespace is the IMPORTED namespace; unprefixed names denote B
    DefaultIsImported,
    /// each namespace is bound to the prefix that spells the OTHER namespace's generated
    /// abbreviation (alpha -> `alp`, beta -> `bet`): xmlns:bet="…/alpha" xmlns:alp="…/beta"
    SwappedAbbreviations,
    /// the root binds prefix `p` to A; the referring component alone rebinds `p` to B (xmlns:p on the
    /// component), and a component declared after it uses `p` again (meaning A)
    ShadowedOnComponent,
    /// the prefix of the reference is declared on the LOCAL element that carries it
    /// (`<xs:element name="Uses" type="q1:Thing" xmlns:q1="…"/>`, the .NET/WCF style)
    DeclaredOnLocalElement,
    /// the reference is unprefixed under a DEFAULT namespace declared on the local element itself
    /// (`<xs:element ref="Thing" xmlns="…"/>`)
    DefaultDeclaredOnLocalElement,
}

fn build(kind: Kind, target_b: bool, prefixing: Prefixing, user_first: bool, decoys: bool, same_name_chain: bool, elem_first: bool, idiom: bool) -> SchemaSet {
    let mut s = s0();
    let (pa, pb): (Vec<(String, String)>, Vec<(String, String)>) = match prefixing {
        Prefixing::TnsClash => (vec![("tns".into(), NS_A.into()), ("b".into(), NS_B.into())], vec![("tns".into(), NS_B.into())]),
        Prefixing::SwappedAbbreviations => (vec![("bet".into(), NS_A.into()), ("alp".into(), NS_B.into())], vec![("alp".into(), NS_B.into())]),
        Prefixing::ShadowedOnComponent => (vec![("p".into(), NS_A.into()), ("a".into(), NS_A.into()), ("b".into(), NS_B.into())], vec![("b".into(), NS_B.into())]),
        _ => (vec![("a".into(), NS_A.into()), ("b".into(), NS_B.into())], vec![("b".into(), NS_B.into())]),
    };
    s.files[0].prefixes = pa;
    s.files[1].prefixes = pb;
    if prefixing == Prefixing::Default {
        s.files[0].default_ns = Some(NS_A.into());
        s.files[1].default_ns = Some(NS_B.into());
    }
    if prefixing == Prefixing::DefaultIsImported {
        s.files[0].default_ns = Some(NS_B.into());
    }
    s.files[0].comps.clear();
    s.files[1].comps.clear();
    // carriers of the name `Thing`
    // with `same_name_chain`, A's carriers are themselves built on B's carriers of the SAME local name
    let type_a = if same_name_chain {
        Comp::Complex(ComplexType { name: "Thing".into(), base: Some(QName::new(NS_B, "Thing")), seq: Some(Seq::of(vec![el("MarkTypeA", TypeRef::b("string"))])), ..Default::default() })
    } else {
        complex("Thing", vec![el("MarkTypeA", TypeRef::b("string"))])
    };
    // B's Thing has a member typed by B's own `Part`; A declares a `Part` as well
    // (under Default prefixing B refers to its own components WITHOUT a prefix, through xmlns="B")
    let own_b = |local: &str| {
        let mut q = QName::new(NS_B, local);
        if prefixing == Prefixing::Default {
            q.prefer = Some(String::new());
        }
        q
    };
    let type_b = complex("Thing", vec![el("MarkTypeB", TypeRef::b("string")), el("MarkTypeB2", TypeRef::b("int")), el("UsesPart", TypeRef::Named(own_b("Part")))]);
    let part_a = complex("Part", vec![el("MarkPartA", TypeRef::b("string"))]);
    let part_b = complex("Part", vec![el("MarkPartB", TypeRef::b("long"))]);
    // `idiom`: the element is an instance of the type of the same name (element name="Thing" type="a:Thing")
    let elem_a = if idiom {
        typed_element("Thing", TypeRef::n(NS_A, "Thing"))
    } else if same_name_chain {
        anon_element("Thing", vec![el("MarkElemA", TypeRef::b("string")), Particle::Ref(ElemRef { target: QName::new(NS_B, "Thing"), min: 0, max: Max::N(1), xmlns: vec![] })])
    } else {
        anon_element("Thing", vec![el("MarkElemA", TypeRef::b("string"))])
    };
    let elem_b = anon_element("Thing", vec![el("MarkElemB", TypeRef::b("string"))]);
    let decoy = Comp::Complex(ComplexType {
        name: "Decoy".into(),
        seq: Some(Seq::of(vec![el("Thing", TypeRef::b("int"))])),
        attrs: vec![Attr { name: "Thing".into(), ty: TypeRef::b("boolean"), required: false, value_constraint: None }],
        ..Default::default()
    });
    // B uses its own Thing through its own prefix (tns in the clash situation)
    let uses_own_b = complex("UsesOwnB", vec![el("OwnThing", TypeRef::Named(own_b("Thing"))), Particle::Ref(ElemRef { target: own_b("Thing"), min: 0, max: Max::N(1), xmlns: vec![] })]);
    s.files[1].comps.extend([part_b, type_b, elem_b, uses_own_b]);
    let tns = if target_b { NS_B } else { NS_A };
    let mut q = QName::new(tns, "Thing");
    if (prefixing == Prefixing::Default && !target_b) || (prefixing == Prefixing::DefaultIsImported && target_b) {
        q.prefer = Some(String::new());
    }
    let local_decl: Vec<(String, String)> = match prefixing {
        Prefixing::DeclaredOnLocalElement => vec![("q1".into(), tns.to_string())],
        Prefixing::DefaultDeclaredOnLocalElement => vec![(String::new(), tns.to_string())],
        _ => vec![],
    };
    let on_local = matches!(prefixing, Prefixing::DeclaredOnLocalElement | Prefixing::DefaultDeclaredOnLocalElement);
    let user = match kind {
        Kind::Type if on_local => {
            let mut e = Elem::new("Uses", TypeRef::Named(q));
            e.xmlns = local_decl.clone();
            complex("User", vec![Particle::Elem(e), el("UserMark", TypeRef::b("string"))])
        }
        Kind::Ref if on_local => complex("User", vec![Particle::Ref(ElemRef { target: q, min: 1, max: Max::N(1), xmlns: local_decl.clone() }), el("UserMark", TypeRef::b("string"))]),
        Kind::Type => complex("User", vec![el("Uses", TypeRef::Named(q)), el("UserMark", TypeRef::b("string"))]),
        Kind::Base => Comp::Complex(ComplexType { name: "User".into(), base: Some(q), seq: Some(Seq::of(vec![el("UserMark", TypeRef::b("string"))])), ..Default::default() }),
        Kind::Ref => complex("User", vec![Particle::Ref(ElemRef { target: q, min: 1, max: Max::N(1), xmlns: vec![] }), el("UserMark", TypeRef::b("string"))]),
    };
    let mut user = user;
    if prefixing == Prefixing::ShadowedOnComponent {
        if let Comp::Complex(c) = &mut user {
            c.xmlns = vec![("p".into(), NS_B.into())];
        }
    }
    let mut a_comps = vec![part_a];
    if decoys {
        a_comps.push(decoy);
    }
    // the two carriers of ONE name and DIFFERENT kinds (a type and a global element) in either order
    let carriers = if elem_first { [elem_a, type_a] } else { [type_a, elem_a] };
    if user_first {
        a_comps.push(user);
        a_comps.extend(carriers);
    } else {
        a_comps.extend(carriers);
        a_comps.push(user);
    }
    if prefixing == Prefixing::ShadowedOnComponent {
        // BEFORE it: a type that extends the rebinding component (read ahead while this one is read)
        // and then uses `p` itself, meaning A
        a_comps.insert(0, Comp::Complex(ComplexType { name: "BeforeDerived".into(), base: Some(QName::new(NS_A, "User")), seq: Some(Seq::of(vec![el("BeforeUses", TypeRef::n(NS_A, "Thing")), el("BeforeUsesPart", TypeRef::n(NS_A, "Part"))])), ..Default::default() }));
        // after the component that rebinds `p`: `p` denotes A again (printed p:Thing through the root's binding)
        a_comps.push(complex("After", vec![el("AfterUses", TypeRef::n(NS_A, "Thing")), el("AfterUsesPart", TypeRef::n(NS_A, "Part"))]));
        a_comps.push(Comp::Complex(ComplexType { name: "AfterDerived".into(), base: Some(QName::new(NS_A, "Thing")), seq: Some(Seq::of(vec![el("AfterOwn", TypeRef::b("string"))])), ..Default::default() }));
    }
    s.files[0].comps = a_comps;
    s
}

fn xsd_states() -> Vec<(State, Vec<(&'static str, String)>)> {
    let mut out = vec![];
    for kind in [Kind::Type, Kind::Base, Kind::Ref] {
        for target_b in [false, true] {
            for prefixing in [Prefixing::Own, Prefixing::TnsClash, Prefixing::Default, Prefixing::DefaultIsImported, Prefixing::SwappedAbbreviations, Prefixing::ShadowedOnComponent, Prefixing::DeclaredOnLocalElement, Prefixing::DefaultDeclaredOnLocalElement] {
                for user_first in [false, true] {
                    for (decoys, chain, elem_first, idiom) in [(false, false, false, false), (true, false, false, false), (false, true, false, false), (true, true, false, false), (false, false, true, false), (true, true, true, false), (false, false, true, true), (false, false, false, true), (true, true, true, true)] {
                        let set = build(kind, target_b, prefixing, user_first, decoys, chain, elem_first, idiom);
                        let label = format!("{kind:?} reference to Thing in {} via {prefixing:?} prefixing, user declared {}{}{}", if target_b { "B (imported file)" } else { "A (same file)" }, if user_first { "before" } else { "after" }, if decoys { ", decoys present" } else { "" }, if chain { ", A's Thing built on B's Thing" } else { "" }.to_string() + if elem_first { ", element Thing declared before type Thing" } else { "" } + if idiom { ", element Thing is of type Thing" } else { "" });
                        let ctx = vec![
                            ("reference.kind", format!("{kind:?}").to_lowercase()),
                            ("reference.target", if target_b { "imported-namespace".into() } else { "own-namespace".to_string() }),
                            ("reference.prefixing", format!("{prefixing:?}")),
                            ("reference.order", if user_first { "use-before-declaration".into() } else { "declaration-first".to_string() }),
                            ("decoys", decoys.to_string()),
                            ("same_name_chain", chain.to_string()),
                            ("element_is_instance_of_same_named_type", idiom.to_string()),
                            ("carrier_order", if elem_first { "element-before-type".into() } else { "type-before-element".to_string() }),
                        ];
                        out.push((State { label, depth: 1, set }, ctx));
                    }
                }
            }
        }
    }
    out
}

/// The imported file imports the start file back and refers to A's `Thing` (base= and ref=) while
/// it declares a `Thing` of its own FURTHER DOWN: the reference must not be bound to the local one.
fn cyclic_import_states() -> Vec<(State, Vec<(&'static str, String)>)> {
    let mut out = vec![];
    for kind in [Kind::Base, Kind::Ref] {
        for own_thing_first in [false, true] {
            let mut s = build(Kind::Type, false, Prefixing::Own, false, false, false, false, false);
            s.files[1].prefixes.push(("a".into(), NS_A.into()));
            s.files[1].imports.push(Import { ns: NS_A.into(), loc: Some("a.xsd".into()) });
            let referrer = match kind {
                Kind::Base => Comp::Complex(ComplexType { name: "InBUsesA".into(), base: Some(QName::new(NS_A, "Thing")), seq: Some(Seq::of(vec![el("OwnInB", TypeRef::b("string"))])), ..Default::default() }),
                _ => complex("InBUsesA", vec![Particle::Ref(ElemRef { target: QName::new(NS_A, "Thing"), min: 0, max: Max::N(1), xmlns: vec![] }), el("OwnInB", TypeRef::b("string"))]),
            };
            if own_thing_first {
                s.files[1].comps.push(referrer);
            } else {
                s.files[1].comps.insert(0, referrer);
            }
            let label = format!("{kind:?} reference from the imported file back to A's Thing (files import each other), B's own Thing declared {}", if own_thing_first { "before the referrer" } else { "after the referrer" });
            let ctx = vec![("reference.kind", format!("{kind:?}").to_lowercase()), ("reference.target", "importing-namespace".to_string()), ("layout.cyclic_import", "true".to_string()), ("reference.order", if own_thing_first { "own-thing-first".into() } else { "referrer-first".to_string() })];
            out.push((State { label, depth: 2, set: s }, ctx));
        }
    }
    out
}

/// Two referrers of different kinds to ONE name in one file: `RefUser` holds ref="a:Thing" (the
/// global element), `BaseUser` extends a:Thing (the type); every declaration order of the four
/// components, the element being of the type of the same name or of an anonymous type.
pub fn two_referrer_states() -> Vec<(State, Vec<(&'static str, String)>)> {
    let mut out = vec![];
    let perms: Vec<Vec<usize>> = {
        fn rec(cur: &mut Vec<usize>, used: &mut [bool; 4], out: &mut Vec<Vec<usize>>) {
            if cur.len() == 4 {
                out.push(cur.clone());
                return;
            }
            for i in 0..4 {
                if !used[i] {
                    used[i] = true;
                    cur.push(i);
                    rec(cur, used, out);
                    cur.pop();
                    used[i] = false;
                }
            }
        }
        let mut o = vec![];
        rec(&mut vec![], &mut [false; 4], &mut o);
        o
    };
    for idiom in [true, false] {
        for perm in &perms {
            let mut s = s0();
            s.files[0].comps.clear();
            let type_a = complex("Thing", vec![el("MarkTypeA", TypeRef::b("string"))]);
            let elem_a = if idiom { typed_element("Thing", TypeRef::n(NS_A, "Thing")) } else { anon_element("Thing", vec![el("MarkElemA", TypeRef::b("string"))]) };
            let ref_user = complex("User", vec![Particle::Ref(ElemRef { target: QName::new(NS_A, "Thing"), min: 1, max: Max::N(1), xmlns: vec![] }), el("UserMark", TypeRef::b("string"))]);
            let base_user = Comp::Complex(ComplexType { name: "BaseUser".into(), base: Some(QName::new(NS_A, "Thing")), seq: Some(Seq::of(vec![el("BaseUserMark", TypeRef::b("string"))])), ..Default::default() });
            let comps = [ref_user, base_user, elem_a, type_a];
            let names = ["ref-user", "base-user", "element", "type"];
            for i in perm {
                s.files[0].comps.push(comps[*i].clone());
            }
            let order: Vec<&str> = perm.iter().map(|i| names[*i]).collect();
            let label = format!("two referrers (ref= and base=) to Thing, declared in the order {}, element Thing {}", order.join(" "), if idiom { "of type Thing" } else { "of an anonymous type" });
            let ctx = vec![("reference.kind", "ref-and-base".to_string()), ("reference.target", "own-namespace".to_string()), ("reference.order", order.join(",")), ("element_is_instance_of_same_named_type", idiom.to_string())];
            out.push((State { label, depth: 2, set: s }, ctx));
        }
    }
    out
}

/// A type that refers to the global element of its own name (the recursive form of the
/// `element name="Thing" type="a:Thing"` idiom: a tree node holding child nodes through `ref=`), and a
/// type derived from it; every declaration order of the three components. Reading `BaseUser` first
/// looks the TYPE Thing up ahead, which looks the ELEMENT Thing up ahead, which names the type again:
/// two different components of one name are on the resolution stack at once.
pub fn recursive_same_name_states() -> Vec<(State, Vec<(&'static str, String)>)> {
    let mut out = vec![];
    for perm in [[0usize, 1, 2], [0, 2, 1], [1, 0, 2], [1, 2, 0], [2, 0, 1], [2, 1, 0]] {
        let mut s = s0();
        s.files[0].comps.clear();
        let type_a = complex("Thing", vec![el("MarkTypeA", TypeRef::b("string")), Particle::Ref(ElemRef { target: QName::new(NS_A, "Thing"), min: 0, max: Max::Unbounded, xmlns: vec![] })]);
        let elem_a = typed_element("Thing", TypeRef::n(NS_A, "Thing"));
        let base_user = Comp::Complex(ComplexType { name: "BaseUser".into(), base: Some(QName::new(NS_A, "Thing")), seq: Some(Seq::of(vec![el("BaseUserMark", TypeRef::b("string"))])), ..Default::default() });
        let comps = [base_user, elem_a, type_a];
        let names = ["base-user", "element", "type"];
        for i in perm {
            s.files[0].comps.push(comps[i].clone());
        }
        let order: Vec<&str> = perm.iter().map(|i| names[*i]).collect();
        let label = format!("type Thing holds ref= to the element Thing of type Thing, BaseUser extends Thing, declared in the order {}", order.join(" "));
        let ctx = vec![("reference.kind", "recursive-ref-and-base".to_string()), ("reference.target", "own-namespace".to_string()), ("reference.order", order.join(",")), ("element_is_instance_of_same_named_type", "true".to_string())];
        out.push((State { label, depth: 2, set: s }, ctx));
    }
    out
}

/// A shared file reached twice, once directly and once at the end of a three-deep import chain:
/// a.xsd imports d.xsd and b.xsd (both orders), b.xsd imports c.xsd, c.xsd imports d.xsd (optionally
/// b.xsd imports d.xsd too). c.xsd refers to d's components by `ref=` and by `base=` and declares
/// components of the same local names itself. When c.xsd is read, d.xsd may have been read two
/// import levels up: what is known there has to reach the lookup in c.xsd, whatever the import order.
pub fn deep_shared_import_states() -> Vec<(State, Vec<(&'static str, String)>)> {
    const NS_C: &str = "http://zv.example/gamma";
    const NS_D: &str = "http://zv.example/delta";
    let mut out = vec![];
    for shared_first in [true, false] {
        for b_imports_d in [false, true] {
            let d = XsdFile {
                name: "d.xsd".into(),
                tns: NS_D.into(),
                prefixes: vec![("d".into(), NS_D.into())],
                default_ns: None,
                imports: vec![],
                comps: vec![typed_element("Thing", TypeRef::b("int")), complex("Base", vec![el("MarkBaseD", TypeRef::b("long"))])],
            };
            let c = XsdFile {
                name: "c.xsd".into(),
                tns: NS_C.into(),
                prefixes: vec![("c".into(), NS_C.into()), ("d".into(), NS_D.into())],
                default_ns: None,
                imports: vec![Import { ns: NS_D.into(), loc: Some("d.xsd".into()) }],
                comps: vec![
                    typed_element("Thing", TypeRef::b("string")),
                    complex("Base", vec![el("MarkBaseC", TypeRef::b("string"))]),
                    complex("User", vec![Particle::Ref(ElemRef { target: QName::new(NS_D, "Thing"), min: 1, max: Max::N(1), xmlns: vec![] }), el("UserMark", TypeRef::b("string"))]),
                    Comp::Complex(ComplexType { name: "BaseUser".into(), base: Some(QName::new(NS_D, "Base")), seq: Some(Seq::of(vec![el("BaseUserMark", TypeRef::b("string"))])), ..Default::default() }),
                ],
            };
            let mut b_imports = vec![Import { ns: NS_C.into(), loc: Some("c.xsd".into()) }];
            let mut b_prefixes = vec![("b".into(), NS_B.into()), ("c".into(), NS_C.into())];
            if b_imports_d {
                b_imports.push(Import { ns: NS_D.into(), loc: Some("d.xsd".into()) });
                b_prefixes.push(("d".into(), NS_D.into()));
            }
            let b = XsdFile { name: "b.xsd".into(), tns: NS_B.into(), prefixes: b_prefixes, default_ns: None, imports: b_imports, comps: vec![complex("Mid", vec![el("Leaf", TypeRef::n(NS_C, "User")), el("Derived", TypeRef::n(NS_C, "BaseUser"))])] };
            let imp_d = Import { ns: NS_D.into(), loc: Some("d.xsd".into()) };
            let imp_b = Import { ns: NS_B.into(), loc: Some("b.xsd".into()) };
            let a = XsdFile {
                name: "a.xsd".into(),
                tns: NS_A.into(),
                prefixes: vec![("a".into(), NS_A.into()), ("b".into(), NS_B.into()), ("d".into(), NS_D.into())],
                default_ns: None,
                imports: if shared_first { vec![imp_d, imp_b] } else { vec![imp_b, imp_d] },
                comps: vec![complex("Holder", vec![el("Mid", TypeRef::n(NS_B, "Mid")), Particle::Ref(ElemRef { target: QName::new(NS_D, "Thing"), min: 0, max: Max::N(1), xmlns: vec![] })])],
            };
            let set = SchemaSet { files: vec![a, b, c, d], wsdl: None, start: "a.xsd".into(), xs_is_default_namespace: false };
            let label = format!("shared file d.xsd imported by a.xsd {} b.xsd and again by c.xsd at the end of the chain a -> b -> c{}; c.xsd refers to d's Thing (ref=) and Base (base=) and has its own Thing and Base", if shared_first { "before" } else { "after" }, if b_imports_d { ", b.xsd importing d.xsd too" } else { "" });
            let ctx = vec![("reference.kind", "ref-and-base".to_string()), ("reference.target", "shared-file-two-levels-up".to_string()), ("layout.import_order", if shared_first { "shared-first".to_string() } else { "chain-first".to_string() })];
            out.push((State { label, depth: 3, set }, ctx));
        }
    }
    out
}

/// WSDL: message named Thing, part named Thing, element Thing in the WSDL's and in an imported namespace
fn wsdl_states() -> Vec<(State, Vec<(&'static str, String)>, String)> {
    let mut out = vec![];
    for target_imported in [false, true] {
        for explicit_parts in [false, true] {
            let mut s = w0();
            let t = XsdFile {
                name: "types.xsd".into(),
                tns: NS_T.into(),
                prefixes: vec![("tns".into(), NS_T.into())],
                default_ns: None,
                imports: vec![],
                comps: vec![anon_element("Thing", vec![el("MarkElemT", TypeRef::b("string"))]), complex("Thing", vec![el("MarkTypeT", TypeRef::b("string"))])],
            };
            s.files.push(t);
            let w = s.wsdl.as_mut().unwrap();
            w.prefixes.push(("t".into(), NS_T.into()));
            w.schema.imports.push(Import { ns: NS_T.into(), loc: Some("types.xsd".into()) });
            w.schema.comps = vec![
                anon_element("Thing", vec![el("MarkElemW", TypeRef::b("string"))]),
                complex("Thing", vec![el("MarkTypeW", TypeRef::b("int"))]),
                anon_element("ThingResponse", vec![el("R", TypeRef::b("string"))]),
            ];
            let ens = if target_imported { NS_T } else { NS_W };
            w.messages = vec![
                Message { name: "Thing".into(), parts: vec![Part { name: "Thing".into(), element: QName::new(ens, "Thing") }] },
                Message { name: "ThingOut".into(), parts: vec![Part { name: "parameters".into(), element: QName::new(NS_W, "ThingResponse") }] },
            ];
            w.pt_ops = vec![PtOp { name: "Thing".into(), input: "Thing".into(), output: Some("ThingOut".into()) }];
            w.b_ops = vec![BOp { name: "Thing".into(), action: None, input: BIo { headers: vec![], parts: if explicit_parts { Some("Thing".into()) } else { None } }, output: Some(BIo::default()) }];
            let label = format!("part element= Thing in {} namespace, parts {}", if target_imported { "the imported" } else { "the WSDL's" }, if explicit_parts { "explicit" } else { "absent" });
            let ctx = vec![("reference.kind", "part-element".to_string()), ("reference.target", if target_imported { "imported-namespace".into() } else { "own-namespace".to_string() }), ("parts", explicit_parts.to_string())];
            out.push((State { label, depth: 1, set: s }, ctx, ens.to_string()));
        }
    }
    out
}

pub fn check(tier: &str) -> i32 {
    let mut rep = Report::new("C09", tier, "model_checking");
    let mut agg = Agg::new();
    let mut xs = xsd_states();
    xs.extend(two_referrer_states());
    xs.extend(recursive_same_name_states());
    xs.extend(deep_shared_import_states());
    xs.extend(cyclic_import_states());
    let states: Vec<State> = xs.iter().map(|(s, _)| State { label: s.label.clone(), depth: s.depth, set: s.set.clone() }).collect();
    let ran = run_states(&states);
    let mut conformant = 0u64;
    for ((st, ctx), r) in xs.iter().zip(ran.iter()) {
        let with_ctx = |mut v: Violation| {
            for (k, val) in ctx {
                v = v.ctx(k, val);
            }
            v
        };
        if let Some(v) = judge_run("C09", "name-reuse", st, r, "reference") {
            agg.add(with_ctx(v));
            continue;
        }
        let ex = r.extract.as_ref().unwrap().as_ref().unwrap();
        let model = RefModel::build(&st.set);
        let only = |c: &ExpComp| c.name == "User" || c.name == "UsesOwnB" || c.name == "BaseUser" || c.name == "After" || c.name == "AfterDerived" || c.name == "BeforeDerived" || c.name == "InBUsesA";
        let vs = compare_api(ex, &model, &ApiCheck { property: "C09", scope: "name-reuse", depth: 1, member_namespaces: true }, Some(&only));
        if vs.is_empty() {
            conformant += 1;
        }
        let user = ex.structs.iter().find(|s| s.name == "User");
        rep.outcome("user_member_lists", user.map(|u| u.fields.iter().map(|f| format!("{}:{}", f.ya.rename.clone().unwrap_or_default(), f.ty.text)).collect::<Vec<_>>().join(",")).unwrap_or_default());
        rep.sample(json!({"state": st.label, "user": user.map(|u| u.fields.iter().map(|f| format!("{}: {}", f.ident, f.ty.text)).collect::<Vec<_>>())}));
        for v in vs {
            // the carrier that was bound instead, for the record
            agg.add(with_ctx(Violation { clause: if v.clause.starts_with("api.member") || v.clause == "ns.binding" { "ref.target".into() } else { v.clause.clone() }, ..v }.ctx("detail", "see expected/actual")).case(case_json(st)));
        }
    }
    // WSDL part
    let ws = wsdl_states();
    let wstates: Vec<State> = ws.iter().map(|(s, _, _)| State { label: s.label.clone(), depth: s.depth, set: s.set.clone() }).collect();
    let wran = run_states(&wstates);
    for ((st, ctx, ens), r) in ws.iter().zip(wran.iter()) {
        let with_ctx = |mut v: Violation| {
            for (k, val) in ctx {
                v = v.ctx(k, val);
            }
            v
        };
        if let Some(v) = judge_run("C09", "name-reuse", st, r, "part-element") {
            agg.add(with_ctx(v));
            continue;
        }
        let ex = r.extract.as_ref().unwrap().as_ref().unwrap();
        let view = crate::soap::discover(ex);
        // the request envelope of the single operation
        let req = view.services.iter().flat_map(|(_, ms)| ms.iter()).find_map(|m| m.req);
        let body_elem = req.and_then(|e| crate::soap::envelope_parts(ex, e).body).and_then(|(_, bs)| bs.fields.first().map(|f| (bs, f)));
        let bound = body_elem.map(|(bs, f)| ex.resolve_type(&bs.module, &f.ty));
        let ok = match &bound {
            Some(crate::extract::ResolvedType::Struct(s)) => s.ns_uri() == Some(ens.as_str()) && s.fields.iter().any(|f| f.ya.rename.as_deref() == Some(if ens == NS_T { "MarkElemT" } else { "MarkElemW" })),
            _ => false,
        };
        if ok {
            conformant += 1;
        } else {
            agg.add(with_ctx(
                Violation::new("C09", "ref.target", "name-reuse")
                    .exp(format!("the request body carries the struct of global element {{{ens}}}Thing"))
                    .act(bound.map(|b| crate::reference::describe_resolved(&b)).unwrap_or_else(|| "no request envelope / body member found".into()))
                    .depth(1)
                    .case(case_json(st)),
            ));
        }
        rep.sample(json!({"state": st.label, "bound": ok}));
    }
    agg.flush(&mut rep);
    let n = states.len() + wstates.len();
    rep.set("states", json!(n));
    rep.set("transitions", json!(n));
    rep.set("traces_validated_against_impl", json!(n));
    rep.set("states_fully_conformant", json!(conformant));
    rep.set("exhaustive", json!(true));
    rep.set("bound", json!("complete product: reference kind {type=, base=, ref=} x target namespace {own, imported} x prefixing {own prefixes, the prefix tns bound to different URIs in the two files, default namespace, default namespace = imported namespace, each prefix spelling the other namespace's generated abbreviation, a prefix of the root rebound on the referring component only and used again after it, a prefix declared on the local element that uses it, a default namespace declared on the local element} x declaration order {before, after use} x decoys {absent, a local element and an attribute named Thing} x {type Thing before element Thing, element first} x {element Thing of an anonymous type, element Thing of type Thing} x {A's Thing carriers independent, built on B's Thing carriers (same local name along the chain)}; two referrers of different kinds (ref= and base=) to one name in all 24 declaration orders x 2 element forms; WSDL: part element= {WSDL's, imported namespace} x parts {explicit, absent} with message and part named Thing; the imported file also refers to its own Thing through its own prefix"));
    let _ = tier;
    rep.assume("a carrier is identified by the namespace its struct declares and its unique marker member");
    rep.finish()
}
