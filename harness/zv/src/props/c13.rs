//! C13: read_xml / write_xml never panic, abort, overflow the stack or hang. Deviation-bounded
//! exploration: every single structural mutation (and, for the small generated seeds, every pair)
//! of valid documents, plus all short token-level documents; each executed on the real library in
//! supervised worker processes.

use crate::report::{Report, Violation};
use crate::runner::{Case, Outcome, Pool};
use serde_json::json;
use std::collections::{BTreeMap, BTreeSet, HashSet};

#[derive(Clone, Debug)]
pub struct Mutant {
    pub kind: &'static str,
    pub detail: String,
    pub text: String,
}

const QNAME_ATTRS: [&str; 9] = ["type", "base", "ref", "element", "message", "binding", "part", "parts", "itemType"];

fn splice(text: &str, range: std::ops::Range<usize>, with: &str) -> String {
    let mut s = String::with_capacity(text.len() + with.len());
    s.push_str(&text[..range.start]);
    s.push_str(with);
    s.push_str(&text[range.end..]);
    s
}

/// all single structural mutations of one document (text in, texts out)
pub fn mutants_of(text: &str, caps: usize) -> Vec<Mutant> {
    let mut out: Vec<Mutant> = vec![];
    let Ok(doc) = roxmltree::Document::parse(text) else {
        return out;
    };
    let elems: Vec<roxmltree::Node> = doc.descendants().filter(|n| n.is_element()).collect();
    let root = doc.root_element();
    // names declared in the document (targets for retargeting)
    let mut names: Vec<String> = vec![];
    for e in &elems {
        if let Some(n) = e.attribute("name") {
            if !names.contains(&n.to_string()) {
                names.push(n.to_string());
            }
        }
    }
    names.truncate(caps);
    // first element of each distinct tag (targets for moves)
    let mut first_of_tag: Vec<roxmltree::Node> = vec![];
    for e in &elems {
        if !first_of_tag.iter().any(|f| f.tag_name().name() == e.tag_name().name()) {
            first_of_tag.push(*e);
        }
    }
    for e in &elems {
        let r = e.range();
        let tag = e.tag_name().name();
        let etext = &text[r.clone()];
        if *e != root {
            out.push(Mutant { kind: "delete-element", detail: format!("<{tag}> at {}", r.start), text: splice(text, r.clone(), "") });
            out.push(Mutant { kind: "duplicate-element", detail: format!("<{tag}> at {}", r.start), text: splice(text, r.end..r.end, etext) });
            // move to the start of the content of the first element of each other tag
            for t in &first_of_tag {
                if t.id() == e.id() || t.ancestors().any(|a| a.id() == e.id()) || Some(t.id()) == e.parent().map(|p| p.id()) {
                    continue;
                }
                let tr = t.range();
                let ttext = &text[tr.clone()];
                // only targets with an explicit end tag
                if ttext.ends_with("/>") {
                    continue;
                }
                let Some(gt) = ttext.find('>') else { continue };
                let ins = tr.start + gt + 1;
                // remove e, insert at ins (adjust for ordering)
                let moved = if ins <= r.start {
                    let a = splice(text, r.clone(), "");
                    splice(&a, ins..ins, etext)
                } else if ins >= r.end {
                    let a = splice(text, ins..ins, etext);
                    splice(&a, r.clone(), "")
                } else {
                    continue;
                };
                out.push(Mutant { kind: "move-element", detail: format!("<{tag}> at {} into <{}>", r.start, t.tag_name().name()), text: moved });
            }
            // swap with the next element sibling
            if let Some(nx) = e.next_siblings().skip(1).find(|n| n.is_element()) {
                let nr = nx.range();
                if nr.start >= r.end {
                    let a = splice(text, nr.clone(), etext);
                    let b = splice(&a, r.clone(), &text[nr.clone()]);
                    out.push(Mutant { kind: "swap-siblings", detail: format!("<{tag}> at {}", r.start), text: b });
                }
            }
        }
        for a in e.attributes() {
            let ar = a.range();
            let vr = a.range_value();
            let an = a.name();
            out.push(Mutant { kind: "delete-attribute", detail: format!("<{tag}> @{an}"), text: splice(text, ar.clone(), "") });
            out.push(Mutant { kind: "empty-attribute", detail: format!("<{tag}> @{an}"), text: splice(text, vr.clone(), "") });
            if QNAME_ATTRS.contains(&an) {
                let val = a.value();
                let prefix = val.split_once(':').map(|(p, _)| format!("{p}:")).unwrap_or_default();
                let mut targets: Vec<(String, String)> = vec![];
                for n in &names {
                    targets.push((format!("{prefix}{n}"), "other-name".into()));
                }
                // itself: the name of the nearest named ancestor-or-self
                if let Some(own) = e.ancestors().find_map(|x| x.attribute("name")) {
                    targets.push((format!("{prefix}{own}"), "self-reference".into()));
                }
                targets.push((format!("zzzundeclared:{}", val.rsplit(':').next().unwrap_or("x")), "undeclared-prefix".into()));
                targets.push((format!("{prefix}ZvNoSuchName"), "dangling".into()));
                targets.push((val.rsplit(':').next().unwrap_or("x").to_string(), "prefix-dropped".into()));
                for (t, why) in targets {
                    if t != val {
                        out.push(Mutant { kind: "retarget-qname", detail: format!("<{tag}> @{an} -> {t} ({why})"), text: splice(text, vr.clone(), &t) });
                    }
                }
            }
            if an == "name" {
                // duplicate definitions: rename to each other declared name
                for n in names.iter().take(6) {
                    if n != a.value() {
                        out.push(Mutant { kind: "rename-to-existing", detail: format!("<{tag}> name -> {n}"), text: splice(text, vr.clone(), n) });
                    }
                }
            }
            if ["minOccurs", "maxOccurs", "value", "use", "location", "soapAction", "schemaLocation", "namespace", "targetNamespace"].contains(&an) {
                for v in ["-1", "99999999999999999999", "unbounded", "\u{e9}\u{20ac}", "{}", "\"", "a b", "http://zv.example/gr\u{f6}\u{df}e", "urn:ab\u{e9}cd", "http://zv.example/x/"] {
                    out.push(Mutant { kind: "alter-attribute", detail: format!("<{tag}> @{an} = {v}"), text: splice(text, vr.clone(), &crate::schema::esc(v)) });
                }
            }
        }
    }
    // namespace declarations are not attributes of the tree: alter their values textually
    {
        let mut pos = 0;
        let mut n = 0;
        while let Some(i) = text[pos..].find("xmlns") {
            let start = pos + i;
            pos = start + 5;
            let Some(eq) = text[start..].find("=\"") else { break };
            if eq > 40 {
                continue;
            }
            let vstart = start + eq + 2;
            let Some(vlen) = text[vstart..].find('"') else { break };
            n += 1;
            if n > 8 {
                break;
            }
            for v in ["", "http://zv.example/gr\u{f6}\u{df}e", "urn:ab\u{e9}cd", "http://zv.example/types/", "http://zv.example/1st", "http://www.w3.org/2001/XMLSchema", "a b"] {
                out.push(Mutant { kind: "alter-xmlns", detail: format!("declaration {n} = {v}"), text: splice(text, vstart..vstart + vlen, v) });
            }
        }
    }
    // truncate at each tag boundary
    for (i, _) in text.match_indices('>') {
        if i + 1 < text.len() {
            out.push(Mutant { kind: "truncate", detail: format!("after byte {}", i + 1), text: text[..=i].to_string() });
        }
    }
    // replace the root tag name
    {
        let rr = root.range();
        let rt = &text[rr.clone()];
        if let Some(sp) = rt.find(|c: char| c.is_whitespace() || c == '>') {
            let old = &rt[1..sp];
            for new in ["html", "xs:element", "wsdl:definitions", "xs:schema"] {
                if new != old {
                    let replaced = rt.replacen(&format!("<{old}"), &format!("<{new}"), 1);
                    let replaced = if let Some(p) = replaced.rfind(&format!("</{old}")) {
                        format!("{}</{new}{}", &replaced[..p], &replaced[p + 2 + old.len()..])
                    } else {
                        replaced
                    };
                    out.push(Mutant { kind: "replace-root", detail: format!("{old} -> {new}"), text: splice(text, rr.clone(), &replaced) });
                }
            }
        }
    }
    out
}

const TOKENS: [&str; 11] = [
    "<xs:complexType name=\"A\">",
    "</xs:complexType>",
    "<xs:sequence>",
    "</xs:sequence>",
    "<xs:element name=\"e\" type=\"A\"/>",
    "<xs:element ref=\"A\"/>",
    "<xs:simpleType name=\"A\"><xs:restriction base=\"A\"><xs:enumeration/></xs:restriction></xs:simpleType>",
    "<xs:complexType name=\"A\"><xs:complexContent><xs:extension base=\"A\"/></xs:complexContent></xs:complexType>",
    "<xs:import namespace=\"urn:t\" schemaLocation=\"t.xsd\"/>",
    "<xs:element name=\"A\"><xs:complexType><xs:sequence><xs:element ref=\"A\"/></xs:sequence></xs:complexType></xs:element>",
    "text",
];

fn token_documents(max_len: usize) -> Vec<(String, String)> {
    let open = "<xs:schema xmlns:xs=\"http://www.w3.org/2001/XMLSchema\" targetNamespace=\"urn:t\">";
    let close = "</xs:schema>";
    let mut out = vec![];
    let mut idx: Vec<usize> = vec![];
    fn rec(idx: &mut Vec<usize>, max_len: usize, out: &mut Vec<(String, String)>, open: &str, close: &str) {
        let body: String = idx.iter().map(|i| TOKENS[*i]).collect::<Vec<_>>().join("");
        out.push((format!("wrapped:{idx:?}"), format!("{open}{body}{close}")));
        if idx.len() <= 2 {
            out.push((format!("raw:{idx:?}"), body.clone()));
            out.push((format!("unclosed:{idx:?}"), format!("{open}{body}")));
        }
        if idx.len() == max_len {
            return;
        }
        for i in 0..TOKENS.len() {
            idx.push(i);
            rec(idx, max_len, out, open, close);
            idx.pop();
        }
    }
    rec(&mut idx, max_len, &mut out, open, close);
    out
}

/// Well-formed token documents beyond the complete depth: every sequence of `from..=to` tokens in
/// which the two opening tokens (0, 2) and their closing tokens (1, 3) nest properly. The sequences
/// dropped are exactly those roxmltree rejects before any zeep code sees a node, so nothing that
/// reaches the reader is lost by the pruning (the complete enumeration up to `from - 1` tokens keeps
/// the malformed ones).
fn wellformed_token_documents(from: usize, to: usize) -> Vec<(String, String)> {
    let open = "<xs:schema xmlns:xs=\"http://www.w3.org/2001/XMLSchema\" targetNamespace=\"urn:t\">";
    let close = "</xs:schema>";
    let mut out = vec![];
    fn rec(idx: &mut Vec<usize>, stack: &mut Vec<usize>, from: usize, to: usize, out: &mut Vec<(String, String)>, open: &str, close: &str) {
        if stack.is_empty() && idx.len() >= from {
            let body: String = idx.iter().map(|i| TOKENS[*i]).collect::<Vec<_>>().join("");
            out.push((format!("wellformed:{idx:?}"), format!("{open}{body}{close}")));
        }
        if idx.len() == to {
            return;
        }
        for i in 0..TOKENS.len() {
            match i {
                0 | 2 => {
                    // an opened element needs room for its closing token
                    if idx.len() + stack.len() + 2 > to {
                        continue;
                    }
                    stack.push(i);
                    idx.push(i);
                    rec(idx, stack, from, to, out, open, close);
                    idx.pop();
                    stack.pop();
                }
                1 | 3 => {
                    if stack.last() != Some(&(i - 1)) {
                        continue;
                    }
                    stack.pop();
                    idx.push(i);
                    rec(idx, stack, from, to, out, open, close);
                    idx.pop();
                    stack.push(i - 1);
                }
                _ => {
                    if idx.len() + stack.len() + 1 > to {
                        continue;
                    }
                    idx.push(i);
                    rec(idx, stack, from, to, out, open, close);
                    idx.pop();
                }
            }
        }
    }
    rec(&mut vec![], &mut vec![], from, to, &mut out, open, close);
    out
}

/// Reference-graph documents: every assignment of reference lists to three global components.
/// Family `refs`: three global elements, each holding an ordered list of 0..2 `ref=`s to any of the
/// three (self included). Family `bases`: three complex types, each with `base=` none or any of the
/// three and one member that is absent or a `ref=` to one of three global elements G0..G2 (Gi is of
/// type Ti), the elements declared before or after the types. All cycles, self references, forward
/// and backward references over three components are in there.
fn reference_graph_documents(tier: &str) -> Vec<(String, String)> {
    let open = "<xs:schema xmlns:xs=\"http://www.w3.org/2001/XMLSchema\" xmlns:t=\"urn:t\" targetNamespace=\"urn:t\" elementFormDefault=\"qualified\">";
    let close = "</xs:schema>";
    let mut out = vec![];
    // ordered lists of length 0..2 over 3 targets
    let mut lists: Vec<Vec<usize>> = vec![vec![]];
    for a in 0..3 {
        lists.push(vec![a]);
    }
    for a in 0..3 {
        for b in 0..3 {
            lists.push(vec![a, b]);
        }
    }
    for l0 in &lists {
        for l1 in &lists {
            for l2 in &lists {
                let mut body = String::new();
                for (i, l) in [l0, l1, l2].iter().enumerate() {
                    body.push_str(&format!("<xs:element name=\"E{i}\"><xs:complexType><xs:sequence>"));
                    for t in l.iter() {
                        body.push_str(&format!("<xs:element ref=\"t:E{t}\" minOccurs=\"0\"/>"));
                    }
                    body.push_str("</xs:sequence></xs:complexType></xs:element>");
                }
                out.push((format!("refs:{l0:?}{l1:?}{l2:?}"), format!("{open}{body}{close}")));
            }
        }
    }
    let placements: &[bool] = if tier == "quick" { &[false] } else { &[false, true] };
    for elems_first in placements {
        for code in 0..(16u32.pow(3)) {
            let mut types = String::new();
            let mut c = code;
            for i in 0..3 {
                let base = c % 4;
                let member = (c / 4) % 4;
                c /= 16;
                let m = if member == 0 { String::new() } else { format!("<xs:element ref=\"t:G{}\" minOccurs=\"0\"/>", member - 1) };
                let seq = format!("<xs:sequence><xs:element name=\"Own{i}\" type=\"xs:string\"/>{m}</xs:sequence>");
                if base == 0 {
                    types.push_str(&format!("<xs:complexType name=\"T{i}\">{seq}</xs:complexType>"));
                } else {
                    types.push_str(&format!("<xs:complexType name=\"T{i}\"><xs:complexContent><xs:extension base=\"t:T{}\">{seq}</xs:extension></xs:complexContent></xs:complexType>", base - 1));
                }
            }
            let elems: String = (0..3).map(|i| format!("<xs:element name=\"G{i}\" type=\"t:T{i}\"/>")).collect();
            let body = if *elems_first { format!("{elems}{types}") } else { format!("{types}{elems}") };
            out.push((format!("bases:{code:03x}:{}", if *elems_first { "elements-first" } else { "types-first" }), format!("{open}{body}{close}")));
        }
    }
    out
}

/// Documents whose COST could grow faster than their size: ladders of forward references (every
/// level refers `width` times to the next level, declared top-down, so each reference is resolved
/// ahead of its turn) and layered import lattices (every file of a level imports both files of the
/// next level). The time limit of the pool is linear in the input size, so an exponential reader
/// shows up as a timeout.
fn scaling_documents() -> Vec<(String, Case)> {
    let open = "<xs:schema xmlns:xs=\"http://www.w3.org/2001/XMLSchema\" xmlns:t=\"urn:t\" targetNamespace=\"urn:t\" elementFormDefault=\"qualified\">";
    let close = "</xs:schema>";
    let mut out = vec![];
    for width in [2usize, 3] {
        for levels in [8usize, 16, 24, 32, 64] {
            let mut body = String::new();
            for i in 0..levels {
                body.push_str(&format!("<xs:element name=\"E{i}\"><xs:complexType><xs:sequence>"));
                for _ in 0..width {
                    body.push_str(&format!("<xs:element ref=\"t:E{}\" minOccurs=\"0\"/>", i + 1));
                }
                body.push_str("</xs:sequence></xs:complexType></xs:element>");
            }
            body.push_str(&format!("<xs:element name=\"E{levels}\" type=\"xs:string\"/>"));
            out.push((format!("ref-ladder:levels={levels}:width={width}"), Case::single("t.xsd", &format!("{open}{body}{close}"))));
            // the same ladder with UNPREFIXED references and no default namespace declared (not valid
            // against the target namespace, but read all the same)
            out.push((format!("ref-ladder-unprefixed:levels={levels}:width={width}"), Case::single("t.xsd", &format!("{open}{}{close}", body.replace("ref=\"t:", "ref=\"")))));
        }
    }
    for levels in [8usize, 16, 24, 32, 64] {
        // T<i> extends T<i+1> and refs G<i+1>, whose anonymous type extends T<i+1> too
        let mut body = String::new();
        for i in 0..levels {
            body.push_str(&format!("<xs:complexType name=\"T{i}\"><xs:complexContent><xs:extension base=\"t:T{}\"><xs:sequence><xs:element ref=\"t:G{}\" minOccurs=\"0\"/></xs:sequence></xs:extension></xs:complexContent></xs:complexType>", i + 1, i + 1));
        }
        body.push_str(&format!("<xs:complexType name=\"T{levels}\"><xs:sequence><xs:element name=\"v\" type=\"xs:string\"/></xs:sequence></xs:complexType>"));
        for i in 1..=levels {
            body.push_str(&format!("<xs:element name=\"G{i}\"><xs:complexType><xs:complexContent><xs:extension base=\"t:T{i}\"/></xs:complexContent></xs:complexType></xs:element>"));
        }
        out.push((format!("base-and-ref-ladder:levels={levels}"), Case::single("t.xsd", &format!("{open}{body}{close}"))));
    }
    for levels in [4usize, 8, 16, 32] {
        let mut files = vec![];
        let file = |name: &str, ns: &str, imports: &[(String, String)], ty: &str| {
            let imps: String = imports.iter().map(|(n, l)| format!("<xs:import namespace=\"{n}\" schemaLocation=\"{l}\"/>")).collect();
            (name.to_string(), format!("<xs:schema xmlns:xs=\"http://www.w3.org/2001/XMLSchema\" targetNamespace=\"{ns}\" elementFormDefault=\"qualified\">{imps}<xs:complexType name=\"{ty}\"><xs:sequence><xs:element name=\"v\" type=\"xs:string\"/></xs:sequence></xs:complexType></xs:schema>"))
        };
        let next = |l: usize| -> Vec<(String, String)> { if l >= levels { vec![] } else { (0..2).map(|k| (format!("urn:l{}k{k}", l + 1), format!("l{}k{k}.xsd", l + 1))).collect() } };
        files.push(file("start.xsd", "urn:start", &next(0), "Start"));
        for l in 1..=levels {
            for k in 0..2 {
                files.push(file(&format!("l{l}k{k}.xsd"), &format!("urn:l{l}k{k}"), &next(l), &format!("L{l}K{k}")));
            }
        }
        out.push((format!("import-lattice:levels={levels}"), Case { files, start: "start.xsd".into() }));
    }
    out
}

struct Job {
    seed: String,
    file: String,
    kind: String,
    detail: String,
    depth: u32,
    case: Case,
}

fn seed_cases(tier: &str) -> Vec<(String, Case, bool)> {
    // (label, case, small)
    let mut v = vec![];
    let small = ["simple", "hello", "tempconverter", "number_services", "blz", "weather", "td_single_complex", "td_extensions", "td_groups", "td_forward", "td_nested_tns", "td_tempconverter", "aic_version", "aic_workflow"];
    for (l, c) in crate::corpus::all_repo_cases() {
        let is_small = small.contains(&l.as_str());
        if is_small || tier == "thorough" {
            v.push((l, c, is_small));
        }
    }
    for n in ["s0", "w0", "kitchen_xsd", "kitchen_wsdl"] {
        v.push((format!("seed:{n}"), crate::seeds::by_name(n).to_case(), true));
    }
    v.push(("raw:no-namespace-wsdl".into(), Case::single("nons.wsdl", crate::props::c15::NO_NS_WSDL), true));
    v
}

fn signature_reduced(ms: Vec<Mutant>) -> Vec<Mutant> {
    // one mutant per distinct (kind, detail with positions and names stripped)
    let mut seen = HashSet::new();
    let mut out = vec![];
    for m in ms {
        let sig: String = format!("{}|{}", m.kind, m.detail.chars().filter(|c| !c.is_ascii_digit()).collect::<String>());
        let sig = sig.split(" at ").next().unwrap_or("").to_string() + m.detail.split("->").nth(1).map(|s| s.rsplit('(').next().unwrap_or("")).unwrap_or("");
        if seen.insert(sig) {
            out.push(m);
        }
    }
    out
}

pub fn check(tier: &str) -> i32 {
    let mut rep = Report::new("C13", tier, "model_checking");
    let mut jobs: Vec<Job> = vec![];
    let mut seen: BTreeSet<String> = BTreeSet::new();
    let seeds = seed_cases(tier);
    let mut per_seed = vec![];
    for (label, case, small) in &seeds {
        let mut n_here = 0usize;
        // depth 0: the seed itself
        jobs.push(Job { seed: label.clone(), file: case.start.clone(), kind: "seed".into(), detail: String::new(), depth: 0, case: case.clone() });
        for (fi, (fname, ftext)) in case.files.iter().enumerate() {
            // mutate the start file and, for small multi-file seeds, the siblings too
            if !*small && *fname != case.start {
                continue;
            }
            if case.files.len() > 4 && *fname != case.start {
                continue;
            }
            let mut ms = mutants_of(ftext, 12);
            if !*small {
                ms = signature_reduced(ms);
            }
            for m in ms {
                let mut c = case.clone();
                c.files[fi].1 = m.text.clone();
                let h = crate::report::hash128(serde_json::to_string(&c).unwrap().as_bytes());
                if !seen.insert(h) {
                    continue;
                }
                n_here += 1;
                jobs.push(Job { seed: label.clone(), file: fname.clone(), kind: m.kind.into(), detail: m.detail.clone(), depth: 1, case: c.clone() });
                // depth 2 for the generated seeds (thorough)
                if tier == "thorough" && (label == "seed:s0" || label == "seed:w0") {
                    for m2 in mutants_of(&m.text, 6) {
                        let mut c2 = c.clone();
                        c2.files[fi].1 = m2.text.clone();
                        let h2 = crate::report::hash128(serde_json::to_string(&c2).unwrap().as_bytes());
                        if !seen.insert(h2) {
                            continue;
                        }
                        jobs.push(Job { seed: label.clone(), file: fname.clone(), kind: format!("{}+{}", m.kind, m2.kind), detail: format!("{} ; {}", m.detail, m2.detail), depth: 2, case: c2 });
                    }
                }
            }
        }
        // a missing start file / missing sibling
        if case.files.len() > 1 {
            let mut c = case.clone();
            c.files.retain(|f| f.0 == case.start);
            jobs.push(Job { seed: label.clone(), file: "-".into(), kind: "remove-siblings".into(), detail: String::new(), depth: 1, case: c });
        }
        per_seed.push(json!({"seed": label, "mutants": n_here}));
    }
    let tok_len = if tier == "quick" { 3 } else { 4 };
    let mut n_tok = 0;
    for (d, text) in token_documents(tok_len) {
        let c = Case { files: vec![("t.xsd".into(), text)], start: "t.xsd".into() };
        n_tok += 1;
        jobs.push(Job { seed: "token-grammar".into(), file: "t.xsd".into(), kind: "token-document".into(), detail: d, depth: 0, case: c });
    }
    let wf_len = if tier == "quick" { 5 } else { 6 };
    let mut n_wf = 0;
    for (d, text) in wellformed_token_documents(tok_len + 1, wf_len) {
        n_wf += 1;
        jobs.push(Job { seed: "token-grammar".into(), file: "t.xsd".into(), kind: "token-document".into(), detail: d, depth: 0, case: Case { files: vec![("t.xsd".into(), text)], start: "t.xsd".into() } });
    }
    let mut n_graph = 0;
    for (d, text) in reference_graph_documents(tier) {
        n_graph += 1;
        jobs.push(Job { seed: "reference-graphs".into(), file: "t.xsd".into(), kind: "reference-graph".into(), detail: d, depth: 0, case: Case { files: vec![("t.xsd".into(), text)], start: "t.xsd".into() } });
    }
    let mut n_scaling = 0;
    for (d, case) in scaling_documents() {
        n_scaling += 1;
        jobs.push(Job { seed: "scaling".into(), file: case.start.clone(), kind: "scaling-document".into(), detail: d, depth: 0, case });
    }
    // invalid components (a required attribute is missing) whose other attributes hold long non-ASCII
    // text, at every byte shift 0..3: error messages are built from the node's text
    for shift in 0..4usize {
        for filler in ["\u{df}", "\u{65e5}", "\u{1d11e}"] {
            let pad = "x".repeat(shift);
            let long: String = filler.repeat(160);
            let text = format!("<xs:schema xmlns:xs=\"http://www.w3.org/2001/XMLSchema\" targetNamespace=\"urn:t\"><xs:complexType Name=\"{pad}{long}\" id=\"{long}\"><xs:sequence><xs:element Name=\"{pad}{long}\" type=\"xs:string\"/></xs:sequence></xs:complexType><xs:simpleType title=\"{pad}{long}\"><xs:restriction base=\"xs:string\"/></xs:simpleType></xs:schema>");
            jobs.push(Job { seed: "invalid-non-ascii".into(), file: "t.xsd".into(), kind: "missing-attribute-next-to-long-non-ascii-text".into(), detail: format!("shift={shift} filler=U+{:04X}", filler.chars().next().unwrap() as u32), depth: 0, case: Case::single("t.xsd", &text) });
            let wsdl = format!("<wsdl:definitions xmlns:wsdl=\"http://schemas.xmlsoap.org/wsdl/\" targetNamespace=\"urn:t\"><wsdl:message title=\"{pad}{long}\"><wsdl:part name=\"p\" element=\"x\"/></wsdl:message><wsdl:portType title=\"{pad}{long}\"/></wsdl:definitions>");
            jobs.push(Job { seed: "invalid-non-ascii".into(), file: "t.wsdl".into(), kind: "missing-attribute-next-to-long-non-ascii-text".into(), detail: format!("wsdl shift={shift} filler=U+{:04X}", filler.chars().next().unwrap() as u32), depth: 0, case: Case::single("t.wsdl", &wsdl) });
        }
    }
    // the designated start file is not among the registered files
    {
        let mut c = crate::seeds::s0().to_case();
        c.start = "zv-not-registered.xsd".into();
        jobs.push(Job { seed: "seed:s0".into(), file: "-".into(), kind: "start-file-not-registered".into(), detail: String::new(), depth: 1, case: c });
    }
    // hundreds of namespaces with ONE abbreviation (declared on the root, and as imports are not needed)
    for count in [12usize, 254, 255, 256, 300, 1000] {
        let decls: String = (0..count).map(|k| format!(" xmlns:p{k}=\"http://zv.example/c{k}/types\"")).collect();
        let text = format!("<xs:schema xmlns:xs=\"http://www.w3.org/2001/XMLSchema\"{decls} targetNamespace=\"http://zv.example/c0/types\" elementFormDefault=\"qualified\"><xs:complexType name=\"A\"><xs:sequence><xs:element name=\"v\" type=\"xs:string\"/></xs:sequence></xs:complexType></xs:schema>");
        jobs.push(Job { seed: "colliding-abbreviations".into(), file: "t.xsd".into(), kind: "many-colliding-namespaces".into(), detail: format!("count={count}"), depth: 0, case: Case::single("t.xsd", &text) });
    }
    // non-XML and edge texts
    for (d, t) in [("empty", ""), ("whitespace", "  \n"), ("bom-only", "\u{feff}"), ("not-xml", "hello world"), ("json", "{\"a\":1}"), ("huge-depth", &"<a>".repeat(20000)), ("entity-bomb-ish", "<!DOCTYPE a [<!ENTITY x \"xxxxxxxxxx\">]><a>&x;&x;&x;</a>"), ("nul", "<a>\u{0}</a>")] {
        jobs.push(Job { seed: "raw-text".into(), file: "t.xsd".into(), kind: "raw-text".into(), detail: d.into(), depth: 0, case: Case::single("t.xsd", t) });
    }
    let mut pool = Pool::new();
    pool.want_text = false;
    let cases: Vec<Case> = jobs.iter().map(|j| j.case.clone()).collect();
    let mut outs: Vec<(Outcome, u64)> = Vec::with_capacity(cases.len());
    let mut stopped = false;
    let mut agg: BTreeMap<String, (Violation, u64)> = BTreeMap::new();
    let mut classes: BTreeMap<String, u64> = BTreeMap::new();
    let mut err_kinds: BTreeSet<String> = BTreeSet::new();
    let mut done = 0usize;
    for (chunk_i, chunk) in cases.chunks(8192).enumerate() {
        let r = pool.run_all(chunk);
        for (k, (o, _us)) in r.iter().enumerate() {
            let j = &jobs[chunk_i * 8192 + k];
            *classes.entry(o.class().to_string()).or_insert(0) += 1;
            match o {
                Outcome::Ok(_) => {}
                Outcome::Err { msg, .. } => {
                    let kind: String = msg.chars().take_while(|c| *c != ':' || msg.starts_with("xml error")).take(40).collect();
                    if err_kinds.len() < 200 {
                        err_kinds.insert(kind);
                    }
                }
                Outcome::Panic { phase, msg, location } => {
                    let loc = location.split("/repo/").last().unwrap_or(location).to_string();
                    let loc = if let Some(p) = loc.find(".cargo/registry/src/") { loc[p + 20..].split_once('/').map(|x| x.1.to_string()).unwrap_or(loc.clone()) } else { loc };
                    let v = Violation::new("C13", "run.panic", "mutation")
                        .ctx("phase", phase)
                        .ctx("location", &loc)
                        .exp("Ok or Err")
                        .act(format!("panic at {loc}: {}", crate::report::trunc(msg, 200)))
                        .depth(j.depth)
                        .case(json!({"seed": j.seed, "file": j.file, "mutation": j.kind, "detail": j.detail, "files": j.case.files, "start": j.case.start}));
                    let key = format!("{:?}", v.context);
                    agg.entry(key).and_modify(|e| e.1 += 1).or_insert((v, 1));
                }
                Outcome::Abort { detail } => {
                    let v = Violation::new("C13", "run.abort", "mutation")
                        .ctx("signal", detail)
                        .ctx("mutation", j.kind.split('+').next().unwrap_or(""))
                        .ctx("why", if j.kind == "token-document" { String::new() } else { j.detail.rsplit('(').next().map(|s| s.trim_end_matches(')').to_string()).filter(|s| s.len() < 24).unwrap_or_default() })
                        .exp("Ok or Err")
                        .act(format!("process died: {detail} (stack overflow shows as SIGABRT/SIGSEGV)"))
                        .depth(j.depth)
                        .case(json!({"seed": j.seed, "file": j.file, "mutation": j.kind, "detail": j.detail, "files": j.case.files, "start": j.case.start}));
                    let key = format!("{:?}", v.context);
                    agg.entry(key).and_modify(|e| e.1 += 1).or_insert((v, 1));
                }
                Outcome::Timeout { limit_ms } => {
                    let v = Violation::new("C13", "run.timeout", "mutation")
                        .ctx("mutation", j.kind.split('+').next().unwrap_or(""))
                        .exp("termination within the time bound")
                        .act(format!("no answer within {limit_ms} ms"))
                        .depth(j.depth)
                        .case(json!({"seed": j.seed, "file": j.file, "mutation": j.kind, "detail": j.detail, "files": j.case.files, "start": j.case.start}));
                    let key = format!("{:?}", v.context);
                    agg.entry(key).and_modify(|e| e.1 += 1).or_insert((v, 1));
                }
            }
            rep.outcome("mutation_kind", j.kind.clone());
            if (done + k) % 4099 == 0 {
                rep.sample(json!({"seed": j.seed, "file": j.file, "mutation": j.kind, "detail": j.detail, "outcome": crate::report::trunc(&o.brief(), 160)}));
            }
        }
        done += chunk.len();
        outs.extend(r);
        if agg.len() >= 40 {
            stopped = true;
            break;
        }
    }
    for (v, n) in agg.values() {
        let mut v = v.clone();
        v.case["occurrences"] = json!(n);
        rep.violation(v);
    }
    rep.set("states", json!(done));
    rep.set("transitions", json!(done));
    rep.set("traces_validated_against_impl", json!(done));
    rep.set("evaluations", json!(done));
    rep.set("max_depth", json!(if tier == "thorough" { 2 } else { 1 }));
    rep.set("exhaustive", json!(!stopped));
    rep.set("bound", json!(format!("all single structural mutations (delete/duplicate/move/swap element, delete/empty/alter attribute, alter namespace declarations, retarget every QName attribute to every declared name / itself / undeclared prefix / dangling name, rename to an existing name, truncate at every tag boundary, replace root) of {} seed inputs{}; all token documents of <= {} tokens over an {}-token alphabet ({} documents) and all well-formed ones (open/close tokens properly nested: the others are rejected by the XML parser before the reader sees a node) of up to {} tokens ({} more documents); {} reference-graph documents (three global elements with every ordered list of 0-2 ref= each; three complex types with every base= and every member ref= to an element of one of the types); {} scaling documents (forward-reference ladders of 8-64 levels and width 2-3 by ref= and by base=+ref=, import lattices of 4-32 levels: cost must stay within the size-linear time limit); a start file that is not registered; 12-1000 namespaces sharing one abbreviation; raw non-XML texts", seeds.len(), if tier == "thorough" { "; all pairs of mutations for the generated seeds s0 and w0; signature-reduced single mutations of the large inputs" } else { "" }, tok_len, TOKENS.len(), n_tok, wf_len, n_wf, n_graph, n_scaling)));
    rep.set("per_seed", json!(per_seed));
    rep.set("outcome_classes", json!(classes));
    rep.set("distinct_error_kinds", json!(err_kinds.len()));
    if stopped {
        rep.set("caps_hit", json!(["stopped after 40 distinct violation signatures"]));
    }
    rep.assume("time limit per case: 10 s + 1 s per 100 kB of input (>= 1000x the measured cost); a hang or a death by signal is an observation made by the supervising parent");
    rep.assume("'all UTF-8 strings' is unbounded: decided is the <=1 (thorough <=2) deviation neighbourhood of the seeds and the short token documents");
    rep.finish()
}

pub fn replay(v: &Violation) -> i32 {
    let files: Vec<(String, String)> = serde_json::from_value(v.case["files"].clone()).unwrap_or_default();
    let start = v.case["start"].as_str().unwrap_or("").to_string();
    let mut pool = Pool::new();
    pool.workers = 1;
    pool.want_text = false;
    let outs = pool.run_all(&[Case { files, start }]);
    println!("replay C13: mutation={} detail={} -> {}", v.case["mutation"], v.case["detail"], outs[0].0.brief());
    match outs[0].0 {
        Outcome::Ok(_) | Outcome::Err { .. } => 0,
        _ => {
            println!("VIOLATION property=C13 replay=(replayed) {}", outs[0].0.brief());
            1
        }
    }
}
