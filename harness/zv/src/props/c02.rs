//! C02: generated structs mirror the schema (members, occurrence, types, names).
//! States: the two-file seed S0 plus one (thorough: two) member production(s) on the holder type,
//! and component-level productions; oracle: extracted item model == reference API model.

use super::common::*;
use crate::reference::{compare_api, ApiCheck, RefModel};
use crate::report::Report;
use crate::schema::*;
use crate::seeds::*;
use serde_json::json;

/// S0 plus a complex type declared AFTER the holder (use-before-declaration)
pub fn seed() -> SchemaSet {
    let mut s = s0();
    s.files[0].comps.push(complex("LeafAfter", vec![el("AfterValue", TypeRef::b("string"))]));
    s
}

pub fn type_alphabet() -> Vec<(String, TypeRef)> {
    let mut v: Vec<(String, TypeRef)> = BUILTINS.iter().map(|(b, _)| (format!("xs:{b}"), TypeRef::b(b))).collect();
    v.push(("complex-same-ns-before".into(), TypeRef::n(NS_A, "Leaf")));
    v.push(("complex-same-ns-after".into(), TypeRef::n(NS_A, "LeafAfter")));
    v.push(("complex-other-ns".into(), TypeRef::n(NS_B, "LeafB")));
    v.push(("simple-same-ns".into(), TypeRef::n(NS_A, "Code")));
    v.push(("simple-other-ns".into(), TypeRef::n(NS_B, "CodeB")));
    v
}

pub const OCCS: [(u32, Max); 6] = [(1, Max::N(1)), (0, Max::N(1)), (1, Max::N(3)), (0, Max::N(3)), (1, Max::Unbounded), (0, Max::Unbounded)];

#[derive(Clone, Debug)]
pub enum MemberProd {
    /// element in the holder's sequence
    Elem { ty: usize, occ: usize, ctx: &'static str },
    /// element (1,1) with an occurrence on the enclosing sequence
    SeqOcc { ty: usize, occ: usize },
    Attr { ty: usize, required: bool },
    /// element with minOccurs="1" maxOccurs="1" written out, inside a sequence with an occurrence
    ExplicitOne { ty: usize, occ: usize },
    Ref { target: &'static str, occ: usize },
    /// a choice whose branches are refs to global elements
    RefInChoice { target: &'static str },
    /// optional attribute with a default= (false) or fixed= (true) value
    AttrConstrained { fixed: bool },
}

pub fn member_label(p: &MemberProd, types: &[(String, TypeRef)]) -> String {
    match p {
        MemberProd::Elem { ty, occ, ctx } => format!("element type={} min={} max={} ctx={ctx}", types[*ty].0, OCCS[*occ].0, OCCS[*occ].1.label()),
        MemberProd::SeqOcc { ty, occ } => format!("element type={} in sequence min={} max={}", types[*ty].0, OCCS[*occ].0, OCCS[*occ].1.label()),
        MemberProd::Attr { ty, required } => format!("attribute type={} use={}", types[*ty].0, if *required { "required" } else { "optional" }),
        MemberProd::ExplicitOne { ty, occ } => format!("element type={} explicit min=1 max=1 in sequence min={} max={}", types[*ty].0, OCCS[*occ].0, OCCS[*occ].1.label()),
        MemberProd::Ref { target, occ } => format!("ref={target} min={} max={}", OCCS[*occ].0, OCCS[*occ].1.label()),
        MemberProd::RefInChoice { target } => format!("ref={target} as a choice branch"),
        MemberProd::AttrConstrained { fixed } => format!("attribute optional with {}", if *fixed { "fixed=" } else { "default=" }),
    }
}

/// applies a member production to the holder; `k` makes member names unique
pub fn apply_member(s: &mut SchemaSet, p: &MemberProd, types: &[(String, TypeRef)], k: usize) {
    // global elements needed by ref productions
    if let MemberProd::Ref { target, .. } | MemberProd::RefInChoice { target } = p {
        let (file, ns) = if target.ends_with("B") { (1, NS_B) } else { (0, NS_A) };
        let exists = s.files[file].comps.iter().any(|c| matches!(c, Comp::Element(g) if g.name == *target));
        if !exists {
            let comp = match *target {
                "GlobalAnon" | "GlobalAnonB" => anon_element(target, vec![el("Inner", TypeRef::b("string"))]),
                "GlobalTyped" => typed_element(target, TypeRef::n(NS_A, "Leaf")),
                "GlobalTypedB" => typed_element(target, TypeRef::n(NS_B, "LeafB")),
                _ => typed_element(target, TypeRef::b("string")),
            };
            let _ = ns;
            s.files[file].comps.push(comp);
        }
    }
    let h = holder_mut(s);
    if h.seq.is_none() {
        h.seq = Some(Seq::of(vec![]));
    }
    let name = format!("Member{k}");
    match p {
        MemberProd::Elem { ty, occ, ctx } => {
            let e = el_occ(&name, types[*ty].1.clone(), OCCS[*occ].0, OCCS[*occ].1);
            let seq = h.seq.as_mut().unwrap();
            match *ctx {
                "sequence" => seq.items.push(e),
                "nested" => {
                    seq.items.push(Particle::Seq(Seq::of(vec![e])));
                    seq.items.push(el(&format!("Sibling{k}"), TypeRef::b("string")));
                }
                "choice+sibling" => {
                    seq.items.push(Particle::Choice(vec![e, el(&format!("Alt{k}"), TypeRef::b("string"))]));
                    seq.items.push(el(&format!("After{k}"), TypeRef::b("int")));
                }
                _ => seq.items.push(Particle::Choice(vec![e, el(&format!("Alt{k}"), TypeRef::b("string"))])),
            }
        }
        MemberProd::SeqOcc { ty, occ } => {
            // an own nested sequence would change the context; at depth 1 the holder's sequence itself carries the occurrence
            let seq = h.seq.as_mut().unwrap();
            if seq.items.is_empty() {
                seq.min = OCCS[*occ].0;
                seq.max = OCCS[*occ].1;
                seq.items.push(el(&name, types[*ty].1.clone()));
            } else {
                seq.items.push(Particle::Seq(Seq { min: OCCS[*occ].0, max: OCCS[*occ].1, items: vec![el(&name, types[*ty].1.clone())], doc: None }));
            }
        }
        MemberProd::ExplicitOne { ty, occ } => {
            let mut e = Elem::new(&name, types[*ty].1.clone());
            e.explicit = true;
            let seq = h.seq.as_mut().unwrap();
            if seq.items.is_empty() {
                seq.min = OCCS[*occ].0;
                seq.max = OCCS[*occ].1;
                seq.items.push(Particle::Elem(e));
            } else {
                seq.items.push(Particle::Seq(Seq { min: OCCS[*occ].0, max: OCCS[*occ].1, items: vec![Particle::Elem(e)], doc: None }));
            }
        }
        MemberProd::Attr { ty, required } => h.attrs.push(Attr { name: format!("attr{k}"), ty: types[*ty].1.clone(), required: *required, value_constraint: None }),
        MemberProd::Ref { target, occ } => {
            let ns = if target.ends_with("B") { NS_B } else { NS_A };
            h.seq.as_mut().unwrap().items.push(Particle::Ref(ElemRef { target: QName::new(ns, target), min: OCCS[*occ].0, max: OCCS[*occ].1, xmlns: vec![] }));
        }
        MemberProd::RefInChoice { target } => {
            let ns = if target.ends_with("B") { NS_B } else { NS_A };
            h.seq.as_mut().unwrap().items.push(Particle::Choice(vec![Particle::Ref(ElemRef { target: QName::new(ns, target), min: 1, max: Max::N(1), xmlns: vec![] }), el(&format!("Alt{k}"), TypeRef::b("string"))]));
        }
        MemberProd::AttrConstrained { fixed } => {
            h.attrs.push(Attr { name: format!("attr{k}"), ty: TypeRef::b("string"), required: false, value_constraint: Some((*fixed, "EUR".into())) });
            h.attrs.push(Attr { name: format!("num{k}"), ty: TypeRef::b("int"), required: false, value_constraint: Some((*fixed, "7".into())) });
        }
    }
}

pub fn member_productions(types: &[(String, TypeRef)], reduced: bool) -> Vec<MemberProd> {
    let mut v = vec![];
    let tys: Vec<usize> = if reduced {
        // a reduced alphabet for depth 2: one builtin per Rust primitive class + the named kinds
        types.iter().enumerate().filter(|(_, (l, _))| ["xs:string", "xs:long", "xs:boolean", "complex-same-ns-before", "complex-other-ns", "simple-same-ns"].contains(&l.as_str())).map(|(i, _)| i).collect()
    } else {
        (0..types.len()).collect()
    };
    let occs: Vec<usize> = if reduced { vec![0, 1, 4] } else { (0..6).collect() };
    for &t in &tys {
        for &o in &occs {
            for ctx in ["sequence", "nested", "choice", "choice+sibling"] {
                if reduced && ctx != "sequence" && o != 0 {
                    continue;
                }
                v.push(MemberProd::Elem { ty: t, occ: o, ctx });
            }
        }
    }
    for &t in &tys {
        for &o in &occs {
            if o != 0 {
                v.push(MemberProd::SeqOcc { ty: t, occ: o });
            }
        }
    }
    for &t in &tys {
        for &o in &occs {
            if reduced && o != 4 {
                continue;
            }
            v.push(MemberProd::ExplicitOne { ty: t, occ: o });
        }
    }
    for (i, (l, _)) in types.iter().enumerate() {
        if l.starts_with("complex") {
            continue;
        }
        if reduced && !tys.contains(&i) {
            continue;
        }
        for r in [false, true] {
            v.push(MemberProd::Attr { ty: i, required: r });
        }
    }
    for fixed in [false, true] {
        v.push(MemberProd::AttrConstrained { fixed });
    }
    for target in ["GlobalAnon", "GlobalAnonB", "GlobalTyped", "GlobalTypedB", "GlobalBuiltin"] {
        v.push(MemberProd::RefInChoice { target });
        for &o in &occs {
            if reduced && o != 0 {
                continue;
            }
            v.push(MemberProd::Ref { target, occ: o });
        }
    }
    v
}


/// component-level productions: each kind once in A and once in B
pub fn component_states() -> Vec<State> {
    let mut out = vec![];
    // the schema embedded in a WSDL <types> section, with a base and a ref that are declared LATER
    {
        let mut s = crate::seeds::w0();
        let w = s.wsdl.as_mut().unwrap();
        let q = |n: &str| QName::new(NS_W, n);
        w.schema.comps.insert(0, Comp::Complex(ComplexType { name: "EarlyDerived".into(), base: Some(q("LateBase")), seq: Some(Seq::of(vec![el("OwnEarly", TypeRef::b("string"))])), ..Default::default() }));
        w.schema.comps.insert(1, complex("EarlyBasket", vec![Particle::Ref(ElemRef { target: q("LateSerial"), min: 1, max: Max::N(1), xmlns: vec![] }), Particle::Ref(ElemRef { target: q("LateAnon"), min: 0, max: Max::N(1), xmlns: vec![] })]));
        w.schema.comps.push(Comp::Complex(ComplexType { name: "LateBase".into(), seq: Some(Seq::of(vec![el("InLateBase", TypeRef::b("long"))])), attrs: vec![Attr { name: "lateAttr".into(), ty: TypeRef::b("string"), required: false, value_constraint: None }], ..Default::default() }));
        w.schema.comps.push(typed_element("LateSerial", TypeRef::b("unsignedLong")));
        w.schema.comps.push(anon_element("LateAnon", vec![el("InLateAnon", TypeRef::b("string"))]));
        out.push(State { label: "add types with forward base= and ref= inside a WSDL-embedded schema".into(), depth: 1, set: s.clone() });
        // the same document spelled with default namespaces: <definitions xmlns="…wsdl/"> and an inline
        // schema under xmlns="<its target namespace>" with unprefixed type=, base= and ref=
        s.wsdl.as_mut().unwrap().default_ns_style = true;
        out.push(State { label: "add types with forward base= and ref= inside a WSDL-embedded schema, default-namespace spelling".into(), depth: 1, set: s });
        let mut plain = crate::seeds::kitchen_wsdl();
        plain.wsdl.as_mut().unwrap().default_ns_style = true;
        out.push(State { label: "add kitchen WSDL in default-namespace spelling".into(), depth: 1, set: plain });
    }
    // default namespace = target namespace, references unprefixed, and the imported namespace
    // declares components with the SAME local names
    {
        let mut s = seed();
        s.files[0].default_ns = Some(NS_A.into());
        s.files[1].comps.push(complex("Leaf", vec![el("LeafOfB", TypeRef::b("long"))]));
        s.files[1].comps.push(anon_element("Note", vec![el("NoteOfB", TypeRef::b("string"))]));
        s.files[0].comps.push(anon_element("Note", vec![el("NoteOfA", TypeRef::b("int"))]));
        let bare = |n: &str| QName { ns: NS_A.into(), local: n.into(), prefer: Some(String::new()) };
        s.files[0].comps.push(Comp::Complex(ComplexType {
            name: "DerivedUnprefixed".into(),
            base: Some(bare("Leaf")),
            seq: Some(Seq::of(vec![el("Own", TypeRef::Named(bare("Code"))), Particle::Ref(ElemRef { target: bare("Note"), min: 0, max: Max::N(1), xmlns: vec![] })])),
            ..Default::default()
        }));
        out.push(State { label: "add complexType with unprefixed base/type/ref under a default namespace (same local names in the imported namespace)".into(), depth: 1, set: s.clone() });
        // … and an unprefixed ref to a global element whose NAME begins with "xml"
        s.files[0].comps.push(typed_element("xmlPayload", TypeRef::b("int")));
        s.files[0].comps.push(anon_element("xmlEnvelope", vec![el("InEnvelope", TypeRef::b("string"))]));
        s.files[0].comps.push(complex("UsesXmlNamed", vec![Particle::Ref(ElemRef { target: bare("xmlPayload"), min: 1, max: Max::N(1), xmlns: vec![] }), Particle::Ref(ElemRef { target: bare("xmlEnvelope"), min: 0, max: Max::N(1), xmlns: vec![] })]));
        out.push(State { label: "add unprefixed refs to global elements whose names begin with xml, under a default namespace".into(), depth: 1, set: s });
    }
    // documentation where real schemas put it: an <xs:annotation> as the first child of a sequence,
    // and of an extension
    {
        let mut s = seed();
        let mut seq = Seq::of(vec![el("First", TypeRef::b("string")), el_occ("Second", TypeRef::b("int"), 0, Max::N(1))]);
        seq.doc = Some("what the members mean".into());
        s.files[0].comps.push(Comp::Complex(ComplexType { name: "AnnotatedSequence".into(), seq: Some(seq.clone()), ..Default::default() }));
        s.files[0].comps.push(Comp::Complex(ComplexType { name: "AnnotatedExtension".into(), base: Some(QName::new(NS_A, "Leaf")), seq: Some(seq), attrs: vec![Attr { name: "k".into(), ty: TypeRef::b("string"), required: false, value_constraint: None }], ..Default::default() }));
        holder_mut(&mut s).seq = Some(Seq::of(vec![el("UsesAnnotated", TypeRef::n(NS_A, "AnnotatedSequence")), el("UsesAnnotatedExtension", TypeRef::n(NS_A, "AnnotatedExtension"))]));
        out.push(State { label: "add types with an annotation inside the sequence and inside the extension".into(), depth: 1, set: s });
    }
    // documentation on the content model: an <xs:annotation> as the first child of <xs:complexContent>
    {
        let mut s = seed();
        let mut seq = Seq::of(vec![el("OwnOfAnnotated", TypeRef::b("string"))]);
        seq.doc = Some("@complexContent:what this derivation adds".into());
        s.files[0].comps.push(Comp::Complex(ComplexType { name: "AnnotatedContent".into(), base: Some(QName::new(NS_A, "Leaf")), seq: Some(seq), attrs: vec![Attr { name: "k".into(), ty: TypeRef::b("string"), required: false, value_constraint: None }], ..Default::default() }));
        s.files[0].comps.push(Comp::Complex(ComplexType { name: "DerivedFromAnnotated".into(), base: Some(QName::new(NS_A, "AnnotatedContent")), seq: Some(Seq::of(vec![el("Further", TypeRef::b("int"))])), ..Default::default() }));
        out.push(State { label: "add derived type with an annotation on its complexContent, and a type derived from it".into(), depth: 1, set: s });
    }
    // a global element of THIS namespace that is of a type of the OTHER namespace with the same local
    // name (messages namespace / types namespace layouts do this), used through ref=
    {
        let mut s = seed();
        s.files[0].comps.push(typed_element("LeafB", TypeRef::n(NS_B, "LeafB")));
        holder_mut(&mut s).seq = Some(Seq::of(vec![Particle::Ref(ElemRef { target: QName::new(NS_A, "LeafB"), min: 0, max: Max::N(1), xmlns: vec![] }), el("Direct", TypeRef::n(NS_B, "LeafB"))]));
        out.push(State { label: "add global element named like its type of the other namespace, used through ref=".into(), depth: 1, set: s });
    }
    // a simple type whose name is a proper SUFFIX of its base type's name (Code restricts CountryCode …)
    {
        let mut s = seed();
        s.files[0].comps.push(simple("IsoCountryCode", "string", vec![("maxLength", "9")]));
        s.files[0].comps.push(Comp::Simple(SimpleType { name: "CountryCode".into(), doc: None, xmlns: vec![], base: TypeRef::n(NS_A, "IsoCountryCode"), facets: vec![Facet { kind: "minLength".into(), value: "2".into() }], facets_as_attrs: false }));
        s.files[0].comps.push(Comp::Simple(SimpleType { name: "ShortCode".into(), doc: None, xmlns: vec![], base: TypeRef::n(NS_A, "Code"), facets: vec![Facet { kind: "maxLength".into(), value: "3".into() }], facets_as_attrs: false }));
        holder_mut(&mut s).seq = Some(Seq::of(vec![el("Country", TypeRef::n(NS_A, "CountryCode")), el("Iso", TypeRef::n(NS_A, "IsoCountryCode")), el("Short", TypeRef::n(NS_A, "ShortCode"))]));
        out.push(State { label: "add simple types whose names are suffixes / extensions of their base types' names".into(), depth: 1, set: s });
    }
    // user-defined types that carry the local name of a builtin (`a:time`, `a:language`, `a:string`):
    // the prefix says which namespace is meant
    for (name, complex_ty) in [("time", true), ("date", false), ("language", false), ("string", true), ("int", false), ("duration", true)] {
        let mut s = seed();
        if complex_ty {
            s.files[0].comps.push(complex(name, vec![el("Hours", TypeRef::b("int")), el("Minutes", TypeRef::b("int"))]));
        } else {
            s.files[0].comps.push(simple(name, "string", vec![("maxLength", "7")]));
        }
        holder_mut(&mut s).seq = Some(Seq::of(vec![el("UsesUserType", TypeRef::n(NS_A, name)), el_occ("UsesBuiltin", TypeRef::b(name), 0, Max::N(1))]));
        out.push(State { label: format!("add user type named like the builtin `{name}` and members of both"), depth: 1, set: s });
    }
    // the XML Schema namespace as the default namespace of every file (<schema xmlns="…/XMLSchema">,
    // <element>, type="string"): the same documents in a common other spelling
    {
        let types = type_alphabet();
        let mut s = seed();
        s.xs_is_default_namespace = true;
        out.push(State { label: "add spelling of seed with the XML Schema namespace as default namespace".into(), depth: 1, set: s.clone() });
        // with members of every kind on the holder
        for (k, p) in member_productions(&types, true).into_iter().enumerate().filter(|(k, _)| k % 7 == 0) {
            let mut t = s.clone();
            apply_member(&mut t, &p, &types, 1);
            out.push(State { label: format!("add spelling with the XML Schema namespace as default namespace ; {} (#{k})", member_label(&p, &types)), depth: 2, set: t });
        }
    }
    for (file, ns, tag) in [(0usize, NS_A, "A"), (1usize, NS_B, "B")] {
        let comps: Vec<(String, Comp)> = vec![
            (format!("add complexType in {tag}"), complex(&format!("Extra{tag}"), vec![el("X", TypeRef::b("int"))])),
            (format!("add simpleType in {tag}"), simple(&format!("ExtraCode{tag}"), "string", vec![("minLength", "1")])),
            (format!("add anonymous global element in {tag}"), anon_element(&format!("ExtraElement{tag}"), vec![el("Y", TypeRef::b("string"))])),
            (format!("add typed global element in {tag}"), typed_element(&format!("ExtraTyped{tag}"), TypeRef::n(ns, if file == 0 { "Leaf" } else { "LeafB" }))),
            (format!("add builtin-typed global element in {tag}"), typed_element(&format!("ExtraBuiltin{tag}"), TypeRef::b("string"))),
            // a global element spelled differently from its type but with the same PascalCase form / the same spelling
            (format!("add typed global element named like its type (other case) in {tag}"), typed_element(if file == 0 { "leaf" } else { "leafB" }, TypeRef::n(ns, if file == 0 { "Leaf" } else { "LeafB" }))),
            (format!("add typed global element named exactly like its type in {tag}"), typed_element(if file == 0 { "Leaf" } else { "LeafB" }, TypeRef::n(ns, if file == 0 { "Leaf" } else { "LeafB" }))),
        ];
        for (label, c) in comps {
            let mut s = seed();
            s.files[file].comps.push(c);
            out.push(State { label, depth: 1, set: s });
        }
    }
    out
}

/// Distinct XML names whose Rust spellings coincide inside ONE struct or ONE module: an element and
/// an attribute of one name (separate symbol spaces: common), two elements that differ in case or
/// separator only, two types that differ in separator only. Judged by C01 (compile).
pub fn spelling_collision_states() -> Vec<State> {
    let mut out = vec![];
    let mk = |label: &str, f: &dyn Fn(&mut SchemaSet)| {
        let mut s = seed();
        f(&mut s);
        State { label: format!("add spelling-collision: {label}"), depth: 1, set: s }
    };
    out.push(mk("an element and an attribute of one name in one type", &|s| {
        let h = holder_mut(s);
        h.seq = Some(Seq::of(vec![el("code", TypeRef::b("string")), el("Other", TypeRef::b("int"))]));
        h.attrs.push(Attr { name: "code".into(), ty: TypeRef::b("string"), required: false, value_constraint: None });
    }));
    out.push(mk("an element and an attribute whose names differ in case only", &|s| {
        let h = holder_mut(s);
        h.seq = Some(Seq::of(vec![el("Type", TypeRef::b("string"))]));
        h.attrs.push(Attr { name: "type".into(), ty: TypeRef::b("string"), required: true, value_constraint: None });
    }));
    out.push(mk("[yaserde-visitor-names] two elements that differ in separator only", &|s| {
        holder_mut(s).seq = Some(Seq::of(vec![el("user-name", TypeRef::b("string")), el("user_name", TypeRef::b("string")), el("user.name", TypeRef::b("int"))]));
    }));
    out.push(mk("[yaserde-visitor-names] two elements that differ in case only", &|s| {
        holder_mut(s).seq = Some(Seq::of(vec![el("userName", TypeRef::b("string")), el("UserName", TypeRef::b("int"))]));
    }));
    out.push(mk("an own element named like an inherited attribute", &|s| {
        s.files[0].comps.push(Comp::Complex(ComplexType { name: "BaseWithAttr".into(), seq: Some(Seq::of(vec![el("Payload", TypeRef::b("string"))])), attrs: vec![Attr { name: "itemId".into(), ty: TypeRef::b("string"), required: false, value_constraint: None }], ..Default::default() }));
        s.files[0].comps.push(Comp::Complex(ComplexType { name: "DerivedWithElem".into(), base: Some(QName::new(NS_A, "BaseWithAttr")), seq: Some(Seq::of(vec![el("item_id", TypeRef::b("int"))])), ..Default::default() }));
    }));
    out.push(mk("[yaserde-visitor-names] an own element named like an inherited one in another spelling", &|s| {
        s.files[0].comps.push(complex("BaseWithId", vec![el("itemId", TypeRef::b("string"))]));
        s.files[0].comps.push(Comp::Complex(ComplexType { name: "DerivedWithId".into(), base: Some(QName::new(NS_A, "BaseWithId")), seq: Some(Seq::of(vec![el("item_id", TypeRef::b("int"))])), ..Default::default() }));
    }));
    out.push(mk("[type-names] two complex types that differ in separator only", &|s| {
        s.files[0].comps.push(complex("user-name", vec![el("A", TypeRef::b("string"))]));
        s.files[0].comps.push(complex("UserName", vec![el("B", TypeRef::b("string"))]));
    }));
    out
}

/// A global element and a type definition sharing ONE name in ONE namespace (separate symbol
/// spaces in XML Schema) while the element is NOT simply an instance of that type. Judged by C01
/// only: C02's oracle finds a component's struct by (namespace, name) and presupposes unique items.
pub fn name_collision_states() -> Vec<State> {
    let mut out = vec![];
    for first in [false, true] {
        let variants: Vec<(&str, Comp)> = vec![
            ("anonymous global element named like a complex type", anon_element("Leaf", vec![el("InElementLeaf", TypeRef::b("int"))])),
            ("global element named like a complex type but typed by another type", typed_element("Leaf", TypeRef::n(NS_A, "Code"))),
            ("builtin-typed global element named like a simple type", typed_element("Code", TypeRef::b("long"))),
        ];
        for (label, c) in variants {
            let mut s = seed();
            if first {
                s.files[0].comps.insert(0, c);
            } else {
                s.files[0].comps.push(c);
            }
            out.push(State { label: format!("add name-collision: {label}, declared {}", if first { "first" } else { "last" }), depth: 1, set: s });
        }
    }
    out
}

pub fn states(tier: &str) -> Vec<State> {
    let types = type_alphabet();
    let mut out = vec![State { label: "seed".into(), depth: 0, set: seed() }];
    let prods = member_productions(&types, false);
    for p in &prods {
        let mut s = seed();
        apply_member(&mut s, p, &types, 1);
        out.push(State { label: member_label(p, &types), depth: 1, set: s });
    }
    out.extend(component_states());
    // a type and a global element of ONE name, referred to (ref= and base=) before and after their
    // declarations, in every declaration order (C09's families; judged here for "exactly one struct
    // per named type"): a component that is read ahead and then handed out by name alone is written
    // twice or replaces its namesake
    // (the element being an instance of the type: an element with an anonymous type next to a type of
    // its name is F-C01-5, which C01 and C09 report)
    for (mut s, _) in super::c09::two_referrer_states().into_iter().filter(|(s, _)| s.label.contains("of type Thing")).chain(super::c09::recursive_same_name_states()) {
        s.label = format!("component same-name: {}", s.label);
        out.push(s);
    }
    if tier == "thorough" {
        let red = member_productions(&types, true);
        for a in &red {
            for b in &red {
                // outside the subset (DESIGN section 2): an occurrence on an OUTER sequence combined with a
                // nested sequence / choice (occurrences sit on the element and its immediately enclosing
                // sequence only); two refs to one global element in one type (duplicate member names)
                let outer = |x: &MemberProd| matches!(x, MemberProd::SeqOcc { .. } | MemberProd::ExplicitOne { .. });
                let inner = |x: &MemberProd| matches!(x, MemberProd::SeqOcc { .. } | MemberProd::ExplicitOne { .. } | MemberProd::RefInChoice { .. }) || matches!(x, MemberProd::Elem { ctx, .. } if *ctx != "sequence");
                if (outer(a) && inner(b)) || (outer(b) && inner(a)) {
                    continue;
                }
                let target = |x: &MemberProd| match x {
                    MemberProd::Ref { target, .. } | MemberProd::RefInChoice { target } => Some(*target),
                    _ => None,
                };
                if target(a).is_some() && target(a) == target(b) {
                    continue;
                }
                let mut s = seed();
                apply_member(&mut s, a, &types, 1);
                apply_member(&mut s, b, &types, 2);
                out.push(State { label: format!("{} ; {}", member_label(a, &types), member_label(b, &types)), depth: 2, set: s });
            }
        }
    }
    out
}

pub fn check(tier: &str) -> i32 {
    let mut rep = Report::new("C02", tier, "model_checking");
    let (states, transitions) = dedup_states(states(tier));
    let ran = run_states(&states);
    let mut agg = Agg::new();
    let mut conformant = 0u64;
    // breadth-first pruning: a depth-2 state is not judged when its depth-1 prefix already violates
    // (all its descendants inherit the discrepancy and would bury independent ones)
    let mut bad_prefix: std::collections::BTreeSet<String> = std::collections::BTreeSet::new();
    for (st, r) in states.iter().zip(ran.iter()) {
        if st.depth == 1 {
            let bad = match (&r.outcome, &r.extract) {
                (crate::runner::Outcome::Ok(_), Some(Ok(ex))) => !compare_api(ex, &RefModel::build(&st.set), &ApiCheck { property: "C02", scope: "member-positions", depth: 1, member_namespaces: false }, None).is_empty(),
                _ => true,
            };
            if bad {
                bad_prefix.insert(st.label.clone());
            }
        }
    }
    let mut pruned = 0u64;
    for (st, r) in states.iter().zip(ran.iter()) {
        if st.depth == 2 {
            let first = st.label.split(" ; ").next().unwrap_or("");
            if bad_prefix.contains(first) {
                pruned += 1;
                continue;
            }
        }
        if let Some(v) = judge_run("C02", "member-positions", st, r, st.label.split(' ').next().unwrap_or("")) {
            agg.add(v);
            continue;
        }
        let ex = r.extract.as_ref().unwrap().as_ref().unwrap();
        let model = RefModel::build(&st.set);
        let vs = compare_api(ex, &model, &ApiCheck { property: "C02", scope: "member-positions", depth: st.depth, member_namespaces: false }, None);
        if vs.is_empty() {
            conformant += 1;
        }
        for f in ex.structs.iter().filter(|s| s.name == "Holder") {
            for fld in &f.fields {
                rep.outcome("field_type_strings", &fld.ty.text);
            }
        }
        rep.sample(json!({"production": st.label, "holder_fields": ex.structs.iter().find(|s| s.name == "Holder").map(|h| h.fields.iter().map(|f| format!("{}: {}", f.ident, f.ty.text)).collect::<Vec<_>>()), "violations": vs.len()}));
        for v in vs {
            // where the documentation sits decides whether the component is read at all (F-C02-2)
            let v = if st.label.contains("annotation inside the sequence") { v.ctx("documentation.position", "first-child-of-sequence-or-extension") } else { v };
            agg.add(v.case(case_json(st)));
        }
    }
    agg.flush(&mut rep);
    rep.set("states", json!(states.len()));
    rep.set("transitions", json!(transitions));
    rep.set("traces_validated_against_impl", json!(states.len()));
    rep.set("max_depth", json!(if tier == "thorough" { 2 } else { 1 }));
    rep.set("states_fully_conformant", json!(conformant));
    rep.set("states_pruned_behind_a_violating_prefix", json!(pruned));
    rep.set("exhaustive", json!(true));
    rep.set("bound", json!("seed S0(+LeafAfter) x every single member production: element x 32 types x 6 occurrences x {sequence, nested+sibling, choice}; sequence occurrence x 32 types; attribute x 29 simple types x use; ref x 5 global-element kinds x 6 occurrences; 10 component productions; thorough: all ordered pairs over a reduced member alphabet"));
    rep.assume("reference model: DESIGN.md section 3.6 (XSD rules restricted to the section-2 subset)");
    rep.assume("this check decides the API level with syn; the compile-and-run confirmation of the same states is part of C01/C03");
    rep.finish()
}

pub fn replay(v: &crate::report::Violation) -> i32 {
    let set: SchemaSet = match serde_json::from_value(v.case["set"].clone()) {
        Ok(s) => s,
        Err(e) => crate::report::machinery(&format!("replay: bad case: {e}")),
    };
    let st = State { label: v.case["label"].as_str().unwrap_or("").into(), depth: v.depth, set };
    let ran = run_states(std::slice::from_ref(&st));
    println!("replay {}: {} -> {}", v.property, st.label, ran[0].outcome.brief());
    if let Some(x) = judge_run(&v.property, &v.scope, &st, &ran[0], "") {
        println!("VIOLATION property={} replay=(replayed) clause={} actual={}", v.property, x.clause, x.actual);
        return 1;
    }
    let ex = ran[0].extract.as_ref().unwrap().as_ref().unwrap();
    let model = RefModel::build(&st.set);
    let vs = compare_api(ex, &model, &ApiCheck { property: &v.property, scope: &v.scope, depth: st.depth, member_namespaces: v.property == "C08" }, None);
    for x in &vs {
        println!("VIOLATION property={} replay=(replayed) clause={} expected={} actual={} context={:?}", v.property, x.clause, x.expected, x.actual, x.context);
    }
    if vs.is_empty() {
        0
    } else {
        1
    }
}
