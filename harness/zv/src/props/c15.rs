//! C15 (fault enumeration): a failure injected at every single `write` call index of every corpus
//! document and every error kind must surface as an I/O error (never Ok, never a panic); short
//! writes and interrupts must still give the complete, identical output.

use crate::report::{Report, Violation};
use crate::runner::{build_files, last_panic_location, Case};
use rayon::prelude::*;
use serde_json::json;
use std::collections::{BTreeMap, BTreeSet, HashMap};
use std::io::{self, ErrorKind, Write};
use std::panic::{catch_unwind, AssertUnwindSafe};
use zeep_lib::reader::{WriteXml, XmlReader};

const INJECT_MSG: &str = "zv-injected-fault";

#[derive(Clone, Copy, Debug, PartialEq)]
pub enum Fault {
    None,
    /// fail call k once with this kind (later calls succeed again)
    Fail(usize, ErrorKind),
    /// return Ok(0) at call k
    Zero(usize),
    /// return Interrupted at call k (must be retried)
    Interrupt(usize),
    /// accept only part of each buffer: 0 = 1 byte, 1 = ceil(len/2), 2 = len-1, 3 = alternating 1/full
    Short(u8),
    /// accept at most k bytes per call
    AtMost(usize),
}

pub struct Sink {
    pub fault: Fault,
    pub calls: usize,
    pub buf: Vec<u8>,
    pub trace: Option<Vec<u64>>, // per call: hash of the call stack
    pub stacks: HashMap<u64, Vec<usize>>,
}

impl Sink {
    pub fn new(fault: Fault, trace: bool) -> Sink {
        Sink { fault, calls: 0, buf: Vec::new(), trace: if trace { Some(vec![]) } else { None }, stacks: HashMap::new() }
    }
}

impl Write for Sink {
    fn write(&mut self, b: &[u8]) -> io::Result<usize> {
        let i = self.calls;
        self.calls += 1;
        if let Some(t) = self.trace.as_mut() {
            let mut ips: Vec<usize> = Vec::with_capacity(20);
            backtrace::trace(|f| {
                ips.push(f.ip() as usize);
                ips.len() < 20
            });
            let mut h: u64 = 0xcbf29ce484222325;
            for ip in &ips {
                h = (h ^ (*ip as u64)).wrapping_mul(0x100000001b3);
            }
            self.stacks.entry(h).or_insert(ips);
            t.push(h);
        }
        match self.fault {
            Fault::Fail(k, kind) if k == i => return Err(io::Error::new(kind, INJECT_MSG)),
            Fault::Zero(k) if k == i => return Ok(0),
            Fault::Interrupt(k) if k == i => return Err(io::Error::new(ErrorKind::Interrupted, INJECT_MSG)),
            Fault::Short(p) => {
                let n = match p {
                    0 => 1,
                    1 => b.len().div_ceil(2),
                    2 => (b.len() - 1).max(1),
                    _ => {
                        if i % 2 == 0 {
                            1
                        } else {
                            b.len()
                        }
                    }
                }
                .min(b.len());
                self.buf.extend_from_slice(&b[..n]);
                return Ok(n);
            }
            Fault::AtMost(k) => {
                let n = k.min(b.len());
                self.buf.extend_from_slice(&b[..n]);
                return Ok(n);
            }
            _ => {}
        }
        self.buf.extend_from_slice(b);
        Ok(b.len())
    }
    fn flush(&mut self) -> io::Result<()> {
        Ok(())
    }
}

#[derive(Debug, Clone, PartialEq)]
pub enum WriteResult {
    Ok,
    /// Err; does the source chain hold an io::Error (and of which kind) / mention the injected text
    Err { io_kind: Option<ErrorKind>, mentions_injected: bool, display: String },
    Panic { msg: String, location: String },
}

fn has_io_source(e: &(dyn std::error::Error + 'static)) -> Option<ErrorKind> {
    let mut cur: Option<&(dyn std::error::Error + 'static)> = Some(e);
    while let Some(c) = cur {
        if let Some(ioe) = c.downcast_ref::<io::Error>() {
            return Some(ioe.kind());
        }
        cur = c.source();
    }
    None
}

/// write_xml on an already read document with the given sink
pub fn write_with<D: WriteXml<Sink>>(doc: &D, sink: &mut Sink) -> WriteResult {
    let r = catch_unwind(AssertUnwindSafe(|| doc.write_xml(sink)));
    match r {
        Err(e) => {
            let msg = if let Some(s) = e.downcast_ref::<&str>() {
                (*s).to_string()
            } else if let Some(s) = e.downcast_ref::<String>() {
                s.clone()
            } else {
                "<panic>".into()
            };
            WriteResult::Panic { msg, location: last_panic_location() }
        }
        Ok(Ok(())) => WriteResult::Ok,
        Ok(Err(e)) => {
            let display = e.to_string();
            let io_kind = has_io_source(&e);
            WriteResult::Err { io_kind, mentions_injected: display.contains(INJECT_MSG), display }
        }
    }
}

pub const KINDS: [ErrorKind; 4] = [ErrorKind::Other, ErrorKind::BrokenPipe, ErrorKind::PermissionDenied, ErrorKind::StorageFull];

fn kind_name(k: ErrorKind) -> String {
    format!("{k:?}")
}
fn kind_from(s: &str) -> ErrorKind {
    KINDS.iter().copied().find(|k| kind_name(*k) == s).unwrap_or(ErrorKind::Other)
}

pub struct Doc {
    pub label: String,
    pub case: Case,
}

pub fn corpus(tier: &str) -> Vec<Doc> {
    let mut v = vec![];
    for (l, c) in crate::corpus::all_repo_cases() {
        v.push(Doc { label: l, case: c });
    }
    for n in ["s0", "s1", "w0", "kitchen_xsd", "kitchen_wsdl"] {
        v.push(Doc { label: format!("seed:{n}"), case: crate::seeds::by_name(n).to_case() });
    }
    {
        let mut k = crate::seeds::kitchen_xsd();
        k.files[0].comps.push(crate::seeds::simple("Farbe", "string", vec![("enumeration", "Gr\u{fc}n"), ("enumeration", "Bleu p\u{e2}le"), ("enumeration", "\u{9752}\u{8272}")]));
        k.files[0].comps.push(crate::schema::Comp::Complex(crate::schema::ComplexType { name: "Beschreibung".into(), doc: Some("Gr\u{f6}\u{df}e \u{2014} \u{9752}\nzweite Zeile".into()), seq: Some(crate::schema::Seq::of(vec![crate::seeds::el("Wert", crate::schema::TypeRef::b("string"))])), ..Default::default() }));
        // a type without a sequence keeps its documentation in the output
        k.files[0].comps.push(crate::schema::Comp::Complex(crate::schema::ComplexType { name: "NurAttribute".into(), doc: Some("Ma\u{df}e in \u{b5}m \u{2014} \u{5bf8}\u{6cd5}\n\u{e9}t\u{e9} \u{1d11e}".into()), seq: None, attrs: vec![crate::schema::Attr { name: "breite".into(), ty: crate::schema::TypeRef::b("int"), required: false, value_constraint: None }], ..Default::default() }));
        v.push(Doc { label: "seed:non-ascii".into(), case: k.to_case() });
    }
    // a WSDL without any targetNamespace: reaches the emitters for components outside a namespace
    v.push(Doc { label: "raw:no-namespace-wsdl".into(), case: Case::single("nons.wsdl", NO_NS_WSDL) });
    let _ = tier;
    v
}

pub const NO_NS_WSDL: &str = r#"<?xml version="1.0"?>
<wsdl:definitions xmlns:wsdl="http://schemas.xmlsoap.org/wsdl/" xmlns:soap="http://schemas.xmlsoap.org/wsdl/soap/" xmlns:xs="http://www.w3.org/2001/XMLSchema" name="NoNs">
  <wsdl:types>
    <xs:schema>
      <xs:element name="Ping"><xs:complexType><xs:sequence><xs:element name="Text" type="xs:string"/></xs:sequence></xs:complexType></xs:element>
      <xs:element name="Auth"><xs:complexType><xs:sequence><xs:element name="Token" type="xs:string"/></xs:sequence></xs:complexType></xs:element>
      <xs:element name="Pong"><xs:complexType><xs:sequence><xs:element name="Text" type="xs:string"/></xs:sequence></xs:complexType></xs:element>
    </xs:schema>
  </wsdl:types>
  <wsdl:message name="PingIn"><wsdl:part name="body" element="Ping"/><wsdl:part name="auth" element="Auth"/></wsdl:message>
  <wsdl:message name="PingOut"><wsdl:part name="body" element="Pong"/></wsdl:message>
  <wsdl:portType name="PingPort"><wsdl:operation name="Ping"><wsdl:input message="PingIn"/><wsdl:output message="PingOut"/></wsdl:operation></wsdl:portType>
  <wsdl:binding name="PingBinding" type="PingPort">
    <soap:binding style="document" transport="http://schemas.xmlsoap.org/soap/http"/>
    <wsdl:operation name="Ping">
      <soap:operation soapAction="http://zv.example/ping"/>
      <wsdl:input><soap:header message="PingIn" part="auth" use="literal"/><soap:body parts="body" use="literal"/></wsdl:input>
      <wsdl:output><soap:body parts="body" use="literal"/></wsdl:output>
    </wsdl:operation>
  </wsdl:binding>
  <wsdl:service name="PingService"><wsdl:port name="P" binding="PingBinding"><soap:address location="http://127.0.0.1:9/ping"/></wsdl:port></wsdl:service>
</wsdl:definitions>
"#;

/// static scan: write!/writeln! sites of non-test code in zeep-lib: (file, first line, last line)
pub fn static_write_sites() -> Vec<(String, usize, usize)> {
    let mut out = vec![];
    let root = std::path::Path::new("/repo/zeep-lib/src");
    let mut stack = vec![root.to_path_buf()];
    let mut files = vec![];
    while let Some(d) = stack.pop() {
        if let Ok(rd) = std::fs::read_dir(&d) {
            for e in rd.flatten() {
                let p = e.path();
                if p.is_dir() {
                    stack.push(p);
                } else if p.extension().map(|x| x == "rs").unwrap_or(false) {
                    files.push(p);
                }
            }
        }
    }
    files.sort();
    for f in files {
        let name = f.file_name().unwrap().to_string_lossy().to_string();
        if name == "helpers_content.rs" || name == "helpers_test.rs" {
            continue; // run-time helper text, not generator code
        }
        let Ok(text) = std::fs::read_to_string(&f) else { continue };
        let rel = f.strip_prefix("/repo/").unwrap_or(&f).to_string_lossy().to_string();
        let lines: Vec<&str> = text.lines().collect();
        let mut i = 0;
        while i < lines.len() {
            let l = lines[i];
            if l.contains("#[cfg(test)]") {
                break;
            }
            let t = l.trim_start();
            if (l.contains("write!(") || l.contains("writeln!(")) && !t.starts_with("//") && !l.contains("write!(f,") {
                let mut j = i;
                while j < lines.len() && !lines[j].contains(';') {
                    j += 1;
                }
                out.push((rel.clone(), i + 1, j.min(lines.len() - 1) + 1));
                i = j + 1;
                continue;
            }
            i += 1;
        }
    }
    out
}

fn resolve_site(ips: &[usize]) -> String {
    let mut best: Option<String> = None;
    for ip in ips {
        backtrace::resolve(*ip as *mut std::ffi::c_void, |sym| {
            if best.is_some() {
                return;
            }
            if let (Some(file), Some(line)) = (sym.filename(), sym.lineno()) {
                let f = file.to_string_lossy();
                if let Some(pos) = f.find("zeep-lib/src/") {
                    best = Some(format!("{}:{}", &f[pos..], line));
                }
            }
        });
        if best.is_some() {
            break;
        }
    }
    best.unwrap_or_else(|| "unknown".into())
}

struct DocInfo {
    n_calls: usize,
    reference: Vec<u8>,
    site_of_call: Vec<String>,
}

fn baseline(doc: &Doc) -> Result<DocInfo, String> {
    let ftr = build_files(&doc.case).ok_or("no files")?;
    let d = catch_unwind(AssertUnwindSafe(|| XmlReader::read_xml(&ftr))).map_err(|_| "read panicked".to_string())?.map_err(|e| e.to_string())?;
    let mut s = Sink::new(Fault::None, true);
    match write_with(&d, &mut s) {
        WriteResult::Ok => {}
        o => return Err(format!("unconstrained write failed: {o:?}")),
    }
    let mut site_by_hash: HashMap<u64, String> = HashMap::new();
    for (h, ips) in &s.stacks {
        site_by_hash.insert(*h, resolve_site(ips));
    }
    let site_of_call = s.trace.as_ref().unwrap().iter().map(|h| site_by_hash[h].clone()).collect();
    Ok(DocInfo { n_calls: s.calls, reference: s.buf, site_of_call })
}

fn viol(doc: &Doc, clause: &str, site: &str, fault: &str, kind: &str, k: usize, exp: &str, act: String) -> Violation {
    Violation::new("C15", clause, "write-fault-sweep")
        .ctx("site", site)
        .ctx("fault", fault)
        .ctx("kind", kind)
        .exp(exp)
        .act(act)
        .depth(1)
        .case(json!({"doc": doc.label, "files": doc.case.files, "start": doc.case.start, "fault": fault, "kind": kind, "k": k}))
}

fn judge(doc: &Doc, info: &DocInfo, reference: &[u8], fault: Fault, res: &WriteResult, sink: &Sink) -> Option<Violation> {
    match fault {
        Fault::Fail(k, kind) => {
            let site = info.site_of_call.get(k).map(|s| s.as_str()).unwrap_or("unknown");
            match res {
                WriteResult::Ok => Some(viol(doc, "sink.ok_on_failure", site, "fail", &kind_name(kind), k, "Err(io)", "Ok".into())),
                WriteResult::Panic { msg, location } => Some(viol(doc, "sink.panic", site, "fail", &kind_name(kind), k, "Err(io)", format!("panic at {location}: {msg}"))),
                WriteResult::Err { io_kind, mentions_injected, display } => {
                    if io_kind.is_none() && !mentions_injected {
                        Some(viol(doc, "sink.wrong_error", site, "fail", &kind_name(kind), k, "an I/O error", display.clone()))
                    } else {
                        None
                    }
                }
            }
        }
        Fault::Zero(k) => {
            let site = info.site_of_call.get(k).map(|s| s.as_str()).unwrap_or("unknown");
            match res {
                WriteResult::Ok => Some(viol(doc, "sink.ok_on_failure", site, "zero", "WriteZero", k, "Err(io)", "Ok".into())),
                WriteResult::Panic { msg, location } => Some(viol(doc, "sink.panic", site, "zero", "WriteZero", k, "Err(io)", format!("panic at {location}: {msg}"))),
                WriteResult::Err { io_kind, display, .. } => {
                    if io_kind.is_none() {
                        Some(viol(doc, "sink.wrong_error", site, "zero", "WriteZero", k, "an I/O error", display.clone()))
                    } else {
                        None
                    }
                }
            }
        }
        Fault::Interrupt(k) => {
            let site = info.site_of_call.get(k).map(|s| s.as_str()).unwrap_or("unknown");
            match res {
                WriteResult::Ok if sink.buf == reference => None,
                WriteResult::Ok => Some(viol(doc, "sink.short_write_diff", site, "interrupt", "Interrupted", k, "complete identical output", "output differs".into())),
                o => Some(viol(doc, "sink.interrupt_not_retried", site, "interrupt", "Interrupted", k, "Ok (retried)", format!("{o:?}"))),
            }
        }
        Fault::Short(p) => match res {
            WriteResult::Ok if sink.buf == reference => None,
            WriteResult::Ok => {
                let first = sink.buf.iter().zip(reference.iter()).position(|(a, b)| a != b).unwrap_or(sink.buf.len().min(reference.len()));
                Some(viol(doc, "sink.short_write_diff", "whole-document", "short", &format!("pattern{p}"), 0, "byte-identical output", format!("differs at byte {first} (len {} vs {})", sink.buf.len(), reference.len())))
            }
            o => Some(viol(doc, "sink.short_write_diff", "whole-document", "short", &format!("pattern{p}"), 0, "Ok", format!("{o:?}"))),
        },
        Fault::AtMost(k) => match res {
            WriteResult::Ok if sink.buf == reference => None,
            WriteResult::Ok => Some(viol(doc, "sink.short_write_diff", "whole-document", "short", "at-most-k", k, "byte-identical output", "output differs".into())),
            o => Some(viol(doc, "sink.short_write_diff", "whole-document", "short", "at-most-k", k, "Ok", format!("{o:?}"))),
        },
        Fault::None => None,
    }
}

pub fn check(tier: &str) -> i32 {
    let mut rep = Report::new("C15", tier, "fault_enumeration");
    let docs = corpus(tier);
    // quick: complete sweep (every k, every kind) for documents up to this many write calls; larger
    // documents get every k with one kind (they add no emitter, only repetitions)
    let full_limit: usize = if tier == "quick" { 3_000 } else { usize::MAX };
    let one_kind_limit: usize = if tier == "quick" { 30_000 } else { usize::MAX };
    let mut infos: Vec<(usize, DocInfo)> = vec![];
    let mut rejected = vec![];
    for (i, d) in docs.iter().enumerate() {
        match baseline(d) {
            Ok(info) => infos.push((i, info)),
            Err(e) => rejected.push(json!({"doc": d.label, "reason": e})),
        }
    }
    // coverage of write sites
    let stat = static_write_sites();
    let mut reached: BTreeSet<String> = BTreeSet::new();
    for (_, info) in &infos {
        for s in &info.site_of_call {
            reached.insert(s.clone());
        }
    }
    let mut unreached = vec![];
    let mut reached_static = 0usize;
    for (f, a, b) in &stat {
        let hit = reached.iter().any(|s| {
            let mut it = s.rsplitn(2, ':');
            let line: usize = it.next().and_then(|x| x.parse().ok()).unwrap_or(0);
            let file = it.next().unwrap_or("");
            file == f && line >= *a && line <= *b
        });
        if hit {
            reached_static += 1;
        } else {
            unreached.push(format!("{f}:{a}"));
        }
    }

    // work list: (doc index in infos, k range, faults)
    struct Chunk {
        di: usize,
        k0: usize,
        k1: usize,
        all_kinds: bool,
    }
    let mut chunks = vec![];
    let mut swept_docs = vec![];
    let mut skipped_docs = vec![];
    for (di, (i, info)) in infos.iter().enumerate() {
        let n = info.n_calls;
        if n > one_kind_limit {
            skipped_docs.push(json!({"doc": docs[*i].label, "write_calls": n, "reason": "above the quick-tier size limit; swept in the thorough tier"}));
            continue;
        }
        let all_kinds = n <= full_limit;
        swept_docs.push(json!({"doc": docs[*i].label, "write_calls": n, "kinds": if all_kinds { "Other,BrokenPipe,PermissionDenied,StorageFull,WriteZero,Interrupted" } else { "Other" }}));
        let step = 128;
        let mut k = 0;
        while k < n {
            chunks.push(Chunk { di, k0: k, k1: (k + step).min(n), all_kinds });
            k += step;
        }
    }
    let results: Vec<(Vec<Violation>, u64)> = chunks
        .par_iter()
        .map(|c| {
            crate::runner::install_quiet_panic_hook();
            let (i, info) = &infos[c.di];
            let doc = &docs[*i];
            let ftr = build_files(&doc.case).unwrap();
            let d = XmlReader::read_xml(&ftr).expect("read succeeded in baseline");
            // the unconstrained output of THIS read (robust against a generator whose output varies between reads: that is C12's business)
            let mut rs = Sink::new(Fault::None, false);
            let _ = write_with(&d, &mut rs);
            let reference = rs.buf;
            let mut v = vec![];
            let mut evals = 0u64;
            for k in c.k0..c.k1 {
                let mut faults: Vec<Fault> = vec![Fault::Fail(k, ErrorKind::Other)];
                if c.all_kinds {
                    for kind in &KINDS[1..] {
                        faults.push(Fault::Fail(k, *kind));
                    }
                    faults.push(Fault::Zero(k));
                    faults.push(Fault::Interrupt(k));
                }
                for f in faults {
                    let mut s = Sink::new(f, false);
                    let r = write_with(&d, &mut s);
                    evals += 1;
                    if let Some(x) = judge(doc, info, &reference, f, &r, &s) {
                        v.push(x);
                    }
                }
            }
            (v, evals)
        })
        .collect();
    let mut evals = 0u64;
    let mut agg: BTreeMap<String, (Violation, u64)> = BTreeMap::new();
    for (vs, e) in results {
        evals += e;
        for v in vs {
            let key = format!("{}|{:?}", v.clause, v.context);
            agg.entry(key).and_modify(|x| x.1 += 1).or_insert((v, 1));
        }
    }
    // short-write patterns: whole documents
    for (i, info) in &infos {
        if info.n_calls > one_kind_limit {
            continue;
        }
        let doc = &docs[*i];
        let ftr = build_files(&doc.case).unwrap();
        let d = XmlReader::read_xml(&ftr).expect("read");
        let mut rs = Sink::new(Fault::None, false);
        let _ = write_with(&d, &mut rs);
        let reference = rs.buf;
        let mut shorts: Vec<Fault> = (0..4u8).map(Fault::Short).collect();
        // at most k bytes per call, k = 2..=96: a partial write can end at every offset of every buffer
        // (inside a multi-byte character in particular) for the documents that are small enough
        if info.n_calls <= 3_000 {
            shorts.extend((2..=96usize).map(Fault::AtMost));
        }
        for f in shorts {
            let mut s = Sink::new(f, false);
            let r = write_with(&d, &mut s);
            evals += 1;
            if let Some(x) = judge(doc, info, &reference, f, &r, &s) {
                let key = format!("{}|{:?}", x.clause, x.context);
                agg.entry(key).and_modify(|x| x.1 += 1).or_insert((x, 1));
            }
        }
    }
    for (v, _) in agg.values() {
        rep.violation(v.clone());
    }
    let distinct_sites_swept: BTreeSet<&String> = infos.iter().filter(|(_, i)| i.n_calls <= one_kind_limit).flat_map(|(_, i)| i.site_of_call.iter()).collect();
    rep.set("evaluations", json!(evals));
    rep.set("distinct_nontrivial", json!(distinct_sites_swept.len()));
    rep.set("rule", json!("for every corpus document every write-call index k in [0,N) is failed once (kinds Other, BrokenPipe, PermissionDenied, StorageFull, Ok(0), Interrupted for documents up to the full-sweep limit; kind Other for larger ones) and short-write patterns (1 byte, half, all but one, alternating, and at most k bytes per call for k = 2..96) are applied to the whole document; each evaluation is one write_xml run on the real library; distinct_nontrivial = number of distinct zeep-lib source sites (file:line, from the call stack of each write call) at which a fault was injected"));
    rep.set("exhaustive", json!(skipped_docs.is_empty()));
    rep.set("documents_swept", json!(swept_docs));
    rep.set("documents_skipped", json!(skipped_docs));
    rep.set("documents_rejected_by_generator", json!(rejected));
    rep.set("write_sites_static", json!(stat.len()));
    rep.set("write_sites_reached", json!(reached_static));
    rep.set("write_sites_unreached", json!(unreached));
    rep.set("traced_sites", json!(reached.iter().take(200).collect::<Vec<_>>()));
    rep.sample(json!({"doc": "seed:kitchen_xsd", "fault": "fail", "kind": "BrokenPipe", "k": 17, "expected": "Err(io)"}));
    rep.sample(json!({"doc": "hello", "fault": "short", "pattern": "1 byte per call", "expected": "byte-identical output"}));
    rep.assume("a failing sink fails exactly one call (index k) and accepts later calls again: the sharpest form, a swallowed error cannot be masked by a later failure");
    rep.assume("write sites are attributed through line tables of the zeep-lib build (debug=line-tables-only)");
    rep.finish()
}

pub fn replay(v: &Violation) -> i32 {
    let files: Vec<(String, String)> = serde_json::from_value(v.case["files"].clone()).unwrap_or_default();
    let start = v.case["start"].as_str().unwrap_or("").to_string();
    let doc = Doc { label: v.case["doc"].as_str().unwrap_or("?").to_string(), case: Case { files, start } };
    let info = match baseline(&doc) {
        Ok(i) => i,
        Err(e) => {
            println!("replay C15: baseline failed: {e}");
            return 2;
        }
    };
    let k = v.case["k"].as_u64().unwrap_or(0) as usize;
    let kind = v.case["kind"].as_str().unwrap_or("Other");
    let fault = match v.case["fault"].as_str().unwrap_or("") {
        "fail" => Fault::Fail(k, kind_from(kind)),
        "zero" => Fault::Zero(k),
        "interrupt" => Fault::Interrupt(k),
        _ => Fault::Short(kind.trim_start_matches("pattern").parse().unwrap_or(0)),
    };
    let ftr = build_files(&doc.case).unwrap();
    let d = XmlReader::read_xml(&ftr).expect("read");
    let mut rs = Sink::new(Fault::None, false);
    let _ = write_with(&d, &mut rs);
    let reference = rs.buf;
    let mut s = Sink::new(fault, false);
    let r = write_with(&d, &mut s);
    println!("replay C15: doc={} fault={fault:?} -> {r:?}", doc.label);
    match judge(&doc, &info, &reference, fault, &r, &s) {
        Some(x) => {
            println!("VIOLATION property=C15 replay=(replayed) clause={} site={:?}", x.clause, x.context.get("site"));
            1
        }
        None => 0,
    }
}
