//! One module per property; `check` dispatches.

pub mod c01;
pub mod c02;
pub mod c03;
pub mod c05;
pub mod c07;
pub mod c08;
pub mod c09;
pub mod c10;
pub mod c11;
pub mod c12;
pub mod c13;
pub mod c14;
pub mod c15;
pub mod c16;
pub mod c17;
pub mod common;
pub mod wsdlgen;

use crate::report::Violation;

pub fn setup() {
    crate::runner::install_quiet_panic_hook();
    match crate::interpose::selftest() {
        Ok(m) => println!("interposers ok: {m}"),
        Err(e) => println!("WARNING: {e}"),
    }
    crate::batch::warm_up();
}

pub fn check(id: &str, tier: &str) -> i32 {
    match id {
        "C01" => c01::check(tier),
        "C02" => c02::check(tier),
        "C03" => c03::check_c03(tier),
        "C04" => c03::check_c04(tier),
        "C05" => c05::check_c05(tier),
        "C18" => c05::check_c18(tier),
        "C07" => c07::check(tier),
        "C08" => c08::check(tier),
        "C09" => c09::check(tier),
        "C10" => c10::check(tier),
        "C11" => c11::check(tier),
        "C12" => c12::check(tier),
        "C13" => c13::check(tier),
        "C14" => c14::check(tier),
        "C15" => c15::check(tier),
        "C16" => c16::check(tier),
        "C17" => c17::check(tier),
        _ => {
            eprintln!("MACHINERY-ERROR: no check for {id}");
            2
        }
    }
}

pub fn replay(v: &Violation) -> i32 {
    match v.property.as_str() {
        "C01" => c01::replay(v),
        "C02" | "C08" | "C09" | "C10" => c02::replay(v),
        "C11" => c11::replay(v),
        "C12" => c12::replay(v),
        "C13" => c13::replay(v),
        "C15" => c15::replay(v),
        "C17" => c17::replay(v),
        _ => {
            eprintln!("MACHINERY-ERROR: no replay for {}", v.property);
            2
        }
    }
}
