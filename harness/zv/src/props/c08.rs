//! C08: a derived type carries its base type's members first, then its own, each keeping the
//! namespace of the schema that declared it. States: extension chains and fans over two files.

use super::common::*;
use crate::reference::{compare_api, ApiCheck, RefModel};
use crate::report::Report;
use crate::schema::*;
use crate::seeds::*;
use serde_json::json;

const CONTENTS: [&str; 5] = ["empty", "sequence", "sequence+choice", "attributes", "sequence+attributes"];

fn content_for(kind: &str, i: usize, ns_other_leaf: (&str, &str)) -> (Option<Seq>, Vec<Attr>) {
    let e1 = el(&format!("E{i}a"), TypeRef::b("string"));
    let e2 = el_occ(&format!("E{i}b"), TypeRef::n(ns_other_leaf.0, ns_other_leaf.1), 0, Max::N(1));
    let attrs = vec![Attr { name: format!("at{i}"), ty: TypeRef::b("int"), required: i % 2 == 0, value_constraint: None }];
    match kind {
        "plain" => (Some(Seq::of(vec![e1, el_occ(&format!("E{i}n"), TypeRef::b("long"), 0, Max::Unbounded)])), attrs),
        "empty" => (None, vec![]),
        "sequence" => (Some(Seq::of(vec![e1, e2])), vec![]),
        "sequence+choice" => (Some(Seq::of(vec![e1, Particle::Choice(vec![el(&format!("C{i}x"), TypeRef::b("long")), el(&format!("C{i}y"), TypeRef::b("boolean"))])])), vec![]),
        "attributes" => (None, attrs),
        _ => (Some(Seq::of(vec![e1, e2])), attrs),
    }
}

#[derive(Clone, Debug)]
struct Link {
    in_b: bool,
    /// declared before its base when both are in the same file
    before_base: bool,
    content: &'static str,
}

fn build(chain: &[Link], fan: bool, decoy: bool) -> SchemaSet {
    let mut s = s0();
    // both files declare both prefixes; B imports A only when some type in B extends/uses A
    s.files[1].prefixes = vec![("b".into(), NS_B.into()), ("a".into(), NS_A.into())];
    let mut b_needs_a = false;
    // per file: list of components in declaration order
    let mut decls: [Vec<Comp>; 2] = [vec![], vec![]];
    for (i, l) in chain.iter().enumerate() {
        let f = if l.in_b { 1 } else { 0 };
        let ns_here = if l.in_b { NS_B } else { NS_A };
        let other_leaf = if l.in_b { (NS_A, "Leaf") } else { (NS_B, "LeafB") };
        if l.in_b && l.content.starts_with("sequence") {
            b_needs_a = true;
        }
        let (seq, attrs) = content_for(l.content, i, other_leaf);
        let base = if i == 0 {
            None
        } else {
            let p = &chain[i - 1];
            if l.in_b && !p.in_b {
                b_needs_a = true;
            }
            Some(QName::new(if p.in_b { NS_B } else { NS_A }, &format!("T{}", i - 1)))
        };
        let _ = ns_here;
        let comp = Comp::Complex(ComplexType { name: format!("T{i}"), doc: None, xmlns: vec![], base, seq, attrs });
        if i > 0 && l.before_base && chain[i - 1].in_b == l.in_b {
            // insert before the base's declaration
            let pos = decls[f].iter().position(|c| c.name() == format!("T{}", i - 1)).unwrap_or(0);
            decls[f].insert(pos, comp);
        } else {
            decls[f].push(comp);
        }
    }
    if fan {
        // a second type derived from T0, in the other file than T1
        let in_b = chain.get(1).map(|l| !l.in_b).unwrap_or(true);
        let p0 = &chain[0];
        if in_b && !p0.in_b {
            b_needs_a = true;
        }
        let (seq, attrs) = content_for("sequence+attributes", 9, if in_b { (NS_A, "Leaf") } else { (NS_B, "LeafB") });
        if in_b {
            b_needs_a = true;
        }
        decls[if in_b { 1 } else { 0 }].push(Comp::Complex(ComplexType {
            name: "Fan".into(),
            doc: None,
            xmlns: vec![],
            base: Some(QName::new(if p0.in_b { NS_B } else { NS_A }, "T0")),
            seq,
            attrs,
        }));
    }
    if decoy {
        // a type declared first in the start file with a LOCAL element that carries the base type's name
        decls[0].insert(0, complex("Decoy", vec![el("T0", TypeRef::b("string")), el("T1", TypeRef::b("int"))]));
    }
    let [da, db] = decls;
    s.files[0].comps.extend(da);
    s.files[1].comps.extend(db);
    if b_needs_a {
        s.files[1].imports.push(Import { ns: NS_A.into(), loc: Some("a.xsd".into()) });
    }
    s
}

fn label(chain: &[Link], fan: bool, decoy: bool) -> String {
    let links: Vec<String> = chain.iter().enumerate().map(|(i, l)| format!("T{i}[{}{},{}]", if l.in_b { "B" } else { "A" }, if i > 0 && l.before_base { ",before-base" } else { "" }, l.content)).collect();
    format!("chain {}{}{}", links.join(" <- "), if fan { " +fan" } else { "" }, if decoy { " +decoy" } else { "" })
}

/// chains whose members cross namespaces without a cyclic import (used by the run-time checks)
pub fn cross_namespace_states(tier: &str) -> Vec<State> {
    let mut out = vec![];
    let layouts: Vec<Vec<bool>> = if tier == "quick" { vec![vec![true, false], vec![false, false], vec![true, false, false]] } else { vec![vec![true, false], vec![false, false], vec![true, true], vec![true, false, false], vec![true, true, false], vec![false, false, false]] };
    for l in layouts {
        let chain: Vec<Link> = l.iter().map(|b| Link { in_b: *b, before_base: false, content: "plain" }).collect();
        out.push(State { label: label(&chain, false, false), depth: chain.len() as u32 - 1, set: build(&chain, false, false) });
    }
    // extensions that add only attributes / nothing / a choice in the middle, in one namespace
    for c1 in ["attributes", "empty", "sequence+choice"] {
        let chain = vec![Link { in_b: false, before_base: false, content: "plain" }, Link { in_b: false, before_base: false, content: c1 }];
        out.push(State { label: label(&chain, false, false), depth: 1, set: build(&chain, false, false) });
    }
    out
}

/// Chains over THREE namespaces (start file gamma imports beta imports alpha; acyclic): every
/// non-increasing placement of T0..Td, own content plain, so each member's namespace is the one of
/// the schema that declared it however many namespace changes lie between it and the derived type.
pub fn three_namespace_chains(tier: &str) -> Vec<State> {
    let mut out = three_namespace_chains_over(tier, ["http://zv.example/gamma", "http://zv.example/beta", "http://zv.example/alpha"], "");
    // the start file and the LAST file share one namespace, the middle file has another (core <- billing <- core)
    out.extend(three_namespace_chains_over(tier, ["http://zv.example/core", "http://zv.example/billing", "http://zv.example/core"], " namespaces-X-Y-X"));
    // the same with namespace URIs that are PREFIXES of one another (the start file has the longest)
    out.extend(three_namespace_chains_over(tier, ["http://zv.example/shop/orders/items", "http://zv.example/shop/orders", "http://zv.example/shop"], " nested-uris"));
    out
}

fn three_namespace_chains_over(tier: &str, uris: [&'static str; 3], tag: &str) -> Vec<State> {
    // when the first and the last file share a namespace, the first cannot IMPORT the last (that would
    // be an include): it reaches it through the middle file only
    let first_imports_last = uris[0] != uris[2];
    #[allow(non_snake_case)]
    let NS = uris;
    const FILE: [&str; 3] = ["g.xsd", "b.xsd", "a.xsd"];
    let mut out = vec![];
    let max_d = if tier == "quick" { 2 } else { 3 };
    for d in 1..=max_d {
        // placements: ns index of T0 >= ... >= ns index of Td
        let mut placements: Vec<Vec<usize>> = vec![vec![]];
        for _ in 0..=d {
            let mut next = vec![];
            for p in &placements {
                let hi = p.last().copied().unwrap_or(2);
                for k in 0..=hi {
                    let mut q = p.clone();
                    q.push(k);
                    next.push(q);
                }
            }
            placements = next;
        }
        for (pl, reverse_imports) in placements.iter().flat_map(|p| [(p.clone(), false), (p.clone(), true)]) {
            let distinct: std::collections::BTreeSet<usize> = pl.iter().copied().collect();
            if distinct.len() < 2 {
                continue;
            }
            let mut files: Vec<XsdFile> = (0..3).map(|k| XsdFile { name: FILE[k].into(), tns: NS[k].into(), prefixes: (k..3).map(|j| (format!("n{j}"), NS[j].to_string())).collect(), default_ns: None, imports: vec![], comps: vec![] }).collect();
            let mut needs = std::collections::BTreeSet::new();
            for (i, k) in pl.iter().enumerate() {
                let base = if i == 0 { None } else { Some(QName::new(NS[pl[i - 1]], &format!("T{}", i - 1))) };
                if i > 0 && pl[i - 1] != *k {
                    needs.insert((*k, pl[i - 1]));
                }
                let (seq, attrs) = content_for("plain", i, (NS_A, "Leaf"));
                files[*k].comps.push(Comp::Complex(ComplexType { name: format!("T{i}"), doc: None, xmlns: vec![], base, seq, attrs }));
            }
            // the start file always reaches every file: gamma -> beta -> alpha
            needs.insert((0, 1));
            needs.insert((1, 2));
            // the start file ALWAYS imports both other files (a diamond: alpha is reached directly and
            // through beta); the order of the import statements is varied
            if first_imports_last {
                needs.insert((0, 2));
            } else if needs.contains(&(0, 2)) {
                continue;
            }
            for (from, to) in needs {
                files[from].imports.push(Import { ns: NS[to].into(), loc: Some(FILE[to].into()) });
            }
            if reverse_imports {
                for f in files.iter_mut() {
                    f.imports.reverse();
                }
            }
            let names: Vec<String> = pl.iter().enumerate().map(|(i, k)| format!("T{i}[{}]", ["gamma", "beta", "alpha"][*k])).collect();
            out.push(State { label: format!("chain3ns {}{}{tag}", names.join(" <- "), if reverse_imports { " imports-reversed" } else { "" }), depth: d as u32, set: SchemaSet { files, wsdl: None, start: "g.xsd".into(), xs_is_default_namespace: false } });
        }
    }
    out
}

fn states(tier: &str) -> Vec<State> {
    let mut out = vec![];
    // depth 1 chains (one derivation): full product
    for f0 in [false, true] {
        for f1 in [false, true] {
            for before in [false, true] {
                if before && f0 != f1 {
                    continue;
                }
                for c0 in CONTENTS {
                    for c1 in CONTENTS {
                        let chain = vec![Link { in_b: f0, before_base: false, content: c0 }, Link { in_b: f1, before_base: before, content: c1 }];
                        out.push(State { label: label(&chain, false, false), depth: 1, set: build(&chain, false, false) });
                    }
                }
                for (fan, decoy) in [(true, false), (false, true), (true, true)] {
                    let chain = vec![Link { in_b: f0, before_base: false, content: "sequence+attributes" }, Link { in_b: f1, before_base: before, content: "sequence+attributes" }];
                    out.push(State { label: label(&chain, fan, decoy), depth: 1, set: build(&chain, fan, decoy) });
                }
            }
        }
    }
    // two base types with ONE local name in the two namespaces, each extended in the start file
    for order in 0..2 {
        let mut s = s0();
        let base_a = Comp::Complex(ComplexType { name: "Base".into(), seq: Some(Seq::of(vec![el("InA", TypeRef::b("string"))])), attrs: vec![Attr { name: "ka".into(), ty: TypeRef::b("int"), required: false, value_constraint: None }], ..Default::default() });
        let base_b = Comp::Complex(ComplexType { name: "Base".into(), seq: Some(Seq::of(vec![el("InB", TypeRef::b("long")), el("InB2", TypeRef::b("string"))])), attrs: vec![], ..Default::default() });
        let d_a = Comp::Complex(ComplexType { name: "T1".into(), base: Some(QName::new(NS_A, "Base")), seq: Some(Seq::of(vec![el("OwnA", TypeRef::b("string"))])), ..Default::default() });
        let d_b = Comp::Complex(ComplexType { name: "T2".into(), base: Some(QName::new(NS_B, "Base")), seq: Some(Seq::of(vec![el("OwnB", TypeRef::b("string"))])), ..Default::default() });
        s.files[1].comps.push(base_b);
        s.files[0].comps.push(base_a);
        if order == 0 {
            s.files[0].comps.push(d_a);
            s.files[0].comps.push(d_b);
        } else {
            s.files[0].comps.push(d_b);
            s.files[0].comps.push(d_a);
        }
        out.push(State { label: format!("chain same-local-name bases in both namespaces, order {order}"), depth: 1, set: s });
    }
    // one file, depth 3 and 4, declared fully base-first and fully derived-first (the deepest nesting of
    // forward look-ups), in either namespace
    for d in 3..=4usize {
        for in_b in [false, true] {
            for before in [false, true] {
                let chain: Vec<Link> = (0..=d).map(|i| Link { in_b, before_base: i > 0 && before, content: "sequence+attributes" }).collect();
                out.push(State { label: label(&chain, false, false), depth: d as u32, set: build(&chain, false, false) });
            }
        }
    }
    out.extend(three_namespace_chains(tier));
    // a base that shares its name with a global element, next to a referrer of that element, in every
    // declaration order (C09's families; here judged for the derived type's member list): a lookup
    // cache that forgets the symbol space hands the ELEMENT to `base=`
    out.extend(super::c09::two_referrer_states().into_iter().map(|(mut s, _)| {
        s.label = format!("chain same-name: {}", s.label);
        s
    }));
    out.extend(super::c09::recursive_same_name_states().into_iter().map(|(mut s, _)| {
        s.label = format!("chain same-name: {}", s.label);
        s
    }));
    // long one-file chains declared derived-first: every base is read ahead inside the reading of its derived type
    for d in [17usize, 33] {
        let chain: Vec<Link> = (0..=d).map(|i| Link { in_b: false, before_base: i > 0, content: "attributes" }).collect();
        out.push(State { label: format!("chain of depth {d} in one file, fully derived-first"), depth: d as u32, set: build(&chain, false, false) });
    }
    // a component declared FIRST whose element reference cannot be resolved (its namespace is imported
    // without a schemaLocation, so the reader gives that one component up), followed by a chain declared
    // derived-first whose base carries the local name of the failed reference
    for d in 1..=3usize {
        let ext = "http://zv.example/external";
        let chain: Vec<Link> = (0..=d).map(|i| Link { in_b: false, before_base: i > 0, content: "sequence+attributes" }).collect();
        let mut s = build(&chain, false, false);
        s.files[0].prefixes.push(("x".into(), ext.into()));
        s.files[0].imports.push(Import { ns: ext.into(), loc: None });
        s.files[0].comps.insert(0, complex("Envelope", vec![Particle::Ref(ElemRef { target: QName::new(ext, "T0"), min: 0, max: Max::N(1), xmlns: vec![] }), Particle::Ref(ElemRef { target: QName::new(ext, "T1"), min: 0, max: Max::N(1), xmlns: vec![] })]));
        out.push(State { label: format!("{} after-a-component-with-unresolvable-refs-to-the-same-local-names", label(&chain, false, false)), depth: d as u32, set: s });
    }
    // longer chains
    let max_d = if tier == "quick" { 2 } else { 4 };
    let contents3 = ["sequence", "attributes", "sequence+attributes"];
    for d in 2..=max_d {
        let n = d + 1;
        // files x orders, contents fixed
        for fmask in 0..(1u32 << n) {
            for omask in 0..(1u32 << d) {
                let mut chain = vec![];
                let mut skip = false;
                for i in 0..n {
                    let in_b = fmask & (1 << i) != 0;
                    let before = i > 0 && omask & (1 << (i - 1)) != 0;
                    if before && (fmask & (1 << (i - 1)) != 0) != in_b {
                        skip = true;
                    }
                    chain.push(Link { in_b, before_base: before, content: "sequence+attributes" });
                }
                if skip {
                    continue;
                }
                out.push(State { label: label(&chain, false, false), depth: d as u32, set: build(&chain, false, false) });
            }
        }
        // contents varied, two file layouts
        if d <= 3 {
            let combos = contents3.len().pow(n as u32);
            for cm in 0..combos {
                for layout in [0u32, 0b1010_1010] {
                    let mut chain = vec![];
                    let mut c = cm;
                    for i in 0..n {
                        chain.push(Link { in_b: layout & (1 << i) != 0, before_base: false, content: contents3[c % 3] });
                        c /= 3;
                    }
                    out.push(State { label: label(&chain, false, false), depth: d as u32, set: build(&chain, false, false) });
                }
            }
        }
    }
    out
}

pub fn check(tier: &str) -> i32 {
    let mut rep = Report::new("C08", tier, "model_checking");
    let (states, transitions) = dedup_states(states("thorough")) /* since round 4 the quick tier explores the thorough bound */;
    let ran = run_states(&states);
    let mut agg = Agg::new();
    let mut conformant = 0u64;
    for (st, r) in states.iter().zip(ran.iter()) {
        if let Some(v) = judge_run("C08", "extension-forests", st, r, "chain") {
            agg.add(v);
            continue;
        }
        let ex = r.extract.as_ref().unwrap().as_ref().unwrap();
        let model = RefModel::build(&st.set);
        // judge the chain types (and Fan): the seed's own types are C02's business
        let only = |c: &crate::reference::ExpComp| c.name.starts_with('T') && c.name.len() <= 3 || c.name == "Fan" || c.name == "BaseUser";
        let vs = compare_api(ex, &model, &ApiCheck { property: "C08", scope: "extension-forests", depth: st.depth, member_namespaces: true }, Some(&only));
        if vs.is_empty() {
            conformant += 1;
        }
        rep.outcome("derived_member_lists", ex.structs.iter().filter(|s| s.name.starts_with('T') || s.name == "Fan").map(|s| s.fields.len().to_string()).collect::<Vec<_>>().join(","));
        rep.sample(json!({"state": st.label, "structs": ex.structs.iter().filter(|s| s.name.starts_with('T') && s.name.len() <= 3).map(|s| format!("{}: {:?}", s.name, s.fields.iter().map(|f| f.ya.rename.clone().unwrap_or_default()).collect::<Vec<_>>())).collect::<Vec<_>>(), "violations": vs.len()}));
        // B importing A back (A always imports B) makes the import graph cyclic: a type of B whose
        // base or member type lives in A is then read before A's components exist
        let cyclic = !st.label.starts_with("chain3ns") && !st.set.files[1].imports.is_empty();
        for v in vs {
            agg.add(v.ctx("layout.cyclic_import", cyclic).case(case_json(st)));
        }
    }
    agg.flush(&mut rep);
    rep.set("states", json!(states.len()));
    rep.set("transitions", json!(transitions));
    rep.set("traces_validated_against_impl", json!(states.len()));
    rep.set("max_depth", json!(4));
    rep.set("states_fully_conformant", json!(conformant));
    rep.set("exhaustive", json!(true));
    rep.set("bound", json!("extension chains of depth 1 (full product: files x declaration order x 5x5 own contents, + fan-out, + forward-lookup decoy) and depth 2 to 4 (both tiers since round 4): all file placements x declaration orders with fixed contents, all contents (3 kinds) for two file layouts; depth 3 and 4 in one file fully base-first and fully derived-first; every acyclic placement of a depth 1-3 chain over three namespaces/files whose import graph is a diamond (start -> beta -> alpha, start -> alpha), import statements in both orders"));
    rep.assume("reference model: base members (recursively, base first) then own elements in document order then own attributes (DESIGN 3.6)");
    rep.finish()
}
