//! C01: the emitted file compiles as a Rust module against the six documented crates only.
//! States: one (thorough: two) production(s) on the XSD and WSDL seeds; oracle: syn parse + rustc
//! (edition 2024) in packages whose manifest lists exactly yaserde, yaserde_derive, xml-rs, log,
//! reqwest, tokio.

use super::common::*;
use super::{c02, wsdlgen};
use crate::batch::{run_batch, BatchCase};
use crate::report::{Report, Violation};
use crate::schema::*;
use crate::seeds::*;
use serde_json::json;

const KEYWORD_SAMPLE: [&str; 6] = ["type", "self", "struct", "match", "async", "gen"];

fn rename_states() -> Vec<State> {
    let mut out = vec![];
    let mut names: Vec<(String, String)> = crate::names::styled(("order", "line")).into_iter().map(|(l, n)| (l.to_string(), n)).collect();
    for k in KEYWORD_SAMPLE {
        names.push((format!("keyword:{k}"), k.to_string()));
    }
    for (style, name) in &names {
        for position in ["complexType", "simpleType", "global-element", "element", "attribute"] {
            let mut s = c02::seed();
            match position {
                "complexType" => {
                    // rename Leaf and its use
                    for c in s.files[0].comps.iter_mut() {
                        if c.name() == "Leaf" {
                            c.set_name(name);
                        }
                    }
                    holder_mut(&mut s).seq = Some(Seq::of(vec![el("UsesIt", TypeRef::n(NS_A, name))]));
                }
                "simpleType" => {
                    for c in s.files[0].comps.iter_mut() {
                        if c.name() == "Code" {
                            c.set_name(name);
                        }
                    }
                    holder_mut(&mut s).seq = Some(Seq::of(vec![el("UsesIt", TypeRef::n(NS_A, name))]));
                }
                "global-element" => {
                    s.files[0].comps.push(anon_element(name, vec![el("Inner", TypeRef::b("string"))]));
                    holder_mut(&mut s).seq = Some(Seq::of(vec![Particle::Ref(ElemRef { target: QName::new(NS_A, name), min: 1, max: Max::N(1), xmlns: vec![] })]));
                }
                "element" => holder_mut(&mut s).seq = Some(Seq::of(vec![el(name, TypeRef::b("string")), el("Other", TypeRef::b("int"))])),
                _ => holder_mut(&mut s).attrs.push(Attr { name: name.clone(), ty: TypeRef::b("string"), required: true, value_constraint: None }),
            }
            out.push(State { label: format!("rename {position} to {style} `{name}`"), depth: 1, set: s });
        }
    }
    // WSDL naming positions (operation, message part, service)
    for (style, name) in &names {
        for position in ["operation", "message-part", "service"] {
            if let Some(set) = super::c14::state_for_name(name, position) {
                out.push(State { label: format!("rename {position} to {style} `{name}`"), depth: 1, set });
            }
        }
    }
    out
}

fn multi_file_states() -> Vec<State> {
    // 3 and 4 namespaces/files in a chain, a diamond and a cycle; every file's type is used by the previous one
    let mut out = vec![];
    let mk = |n: usize, edges: &[(usize, usize)], label: &str| {
        let mut files = vec![];
        for i in 0..n {
            let ns = format!("http://zv.example/m{i}");
            let mut prefixes = vec![(format!("p{i}"), ns.clone())];
            let mut imports = vec![];
            let mut items = vec![el("Own", TypeRef::b("string"))];
            for (a, b) in edges {
                if *a == i {
                    let nsb = format!("http://zv.example/m{b}");
                    if *b != i {
                        prefixes.push((format!("p{b}"), nsb.clone()));
                    }
                    imports.push(Import { ns: nsb.clone(), loc: Some(format!("m{b}.xsd")) });
                    // only reference types of files that are read before this one finishes (acyclic use)
                    if *b > i {
                        items.push(el(&format!("Uses{b}"), TypeRef::n(&nsb, &format!("Type{b}"))));
                    }
                }
            }
            files.push(XsdFile { name: format!("m{i}.xsd"), tns: ns, prefixes, default_ns: None, imports, comps: vec![complex(&format!("Type{i}"), items), simple(&format!("Code{i}"), "string", vec![("maxLength", "3")])] });
        }
        State { label: format!("files {label}"), depth: 1, set: SchemaSet { files, wsdl: None, start: "m0.xsd".into(), xs_is_default_namespace: false } }
    };
    out.push(mk(3, &[(0, 1), (1, 2)], "chain-3"));
    out.push(mk(4, &[(0, 1), (1, 2), (2, 3)], "chain-4"));
    out.push(mk(4, &[(0, 1), (0, 2), (1, 3), (2, 3)], "diamond-4"));
    out.push(mk(3, &[(0, 1), (1, 2), (2, 0)], "cycle-3"));
    out.push(mk(3, &[(0, 1), (0, 2), (1, 2), (2, 1)], "mutual-3"));
    out.push(mk(2, &[(0, 1), (0, 0)], "self-import"));
    // two namespaces with ONE abbreviation: (a) the root declares prefix a before prefix b but imports
    // b's file first; (b) a chain root -> mid -> leaf in which the LEAF shares its abbreviation with the root
    {
        let one = "http://zv.example/one/types";
        let two = "http://zv.example/two/types";
        let root_ns = "http://zv.example/rootspace";
        let leaf = |name: &str, ns: &str, ty: &str| XsdFile { name: name.into(), tns: ns.into(), prefixes: vec![("own".into(), ns.into())], default_ns: None, imports: vec![], comps: vec![complex(ty, vec![el("V", TypeRef::b("string"))])] };
        let root = XsdFile {
            name: "m0.xsd".into(),
            tns: root_ns.into(),
            prefixes: vec![("r".into(), root_ns.into()), ("a".into(), one.into()), ("b".into(), two.into())],
            default_ns: None,
            imports: vec![Import { ns: two.into(), loc: Some("m2.xsd".into()) }, Import { ns: one.into(), loc: Some("m1.xsd".into()) }],
            comps: vec![complex("UsesBoth", vec![el("P", TypeRef::n(one, "Person")), el("Q", TypeRef::n(two, "Product"))])],
        };
        out.push(State { label: "files same-abbreviation-prefix-order-differs-from-import-order".into(), depth: 1, set: SchemaSet { files: vec![root, leaf("m1.xsd", one, "Person"), leaf("m2.xsd", two, "Product")], wsdl: None, start: "m0.xsd".into(), xs_is_default_namespace: false } });
        let mid_ns = "http://zv.example/mid/other";
        let root = XsdFile { name: "m0.xsd".into(), tns: one.into(), prefixes: vec![("r".into(), one.into()), ("m".into(), mid_ns.into())], default_ns: None, imports: vec![Import { ns: mid_ns.into(), loc: Some("m1.xsd".into()) }], comps: vec![complex("Top", vec![el("M", TypeRef::n(mid_ns, "Mid"))])] };
        let mid = XsdFile { name: "m1.xsd".into(), tns: mid_ns.into(), prefixes: vec![("m".into(), mid_ns.into()), ("l".into(), two.into())], default_ns: None, imports: vec![Import { ns: two.into(), loc: Some("m2.xsd".into()) }], comps: vec![complex("Mid", vec![el("L", TypeRef::n(two, "Product"))])] };
        out.push(State { label: "files chain-whose-leaf-shares-the-roots-abbreviation".into(), depth: 1, set: SchemaSet { files: vec![root, mid, leaf("m2.xsd", two, "Product")], wsdl: None, start: "m0.xsd".into(), xs_is_default_namespace: false } });
    }
    // two imported namespaces with ONE abbreviation whose prefixes are declared on the referring
    // components only (never on the root element)
    {
        let ns = ["http://zv.example/umbrella", "http://zv.example/billing/v1/types", "http://zv.example/shipping/v1/types"];
        let mut files = vec![];
        let mut start = XsdFile { name: "m0.xsd".into(), tns: ns[0].into(), prefixes: vec![("u".into(), ns[0].into())], default_ns: None, imports: vec![], comps: vec![] };
        for i in 1..3 {
            start.imports.push(Import { ns: ns[i].into(), loc: Some(format!("m{i}.xsd")) });
            start.comps.push(Comp::Complex(ComplexType { name: format!("Uses{i}"), xmlns: vec![(format!("p{i}"), ns[i].into())], seq: Some(Seq::of(vec![el("It", TypeRef::n(ns[i], &format!("Type{i}")))])), ..Default::default() }));
            files.push(XsdFile { name: format!("m{i}.xsd"), tns: ns[i].into(), prefixes: vec![("own".into(), ns[i].into())], default_ns: None, imports: vec![], comps: vec![complex(&format!("Type{i}"), vec![el("V", TypeRef::b("string"))])] });
        }
        files.insert(0, start);
        out.push(State { label: "files colliding-abbreviations-declared-on-components".into(), depth: 1, set: SchemaSet { files, wsdl: None, start: "m0.xsd".into(), xs_is_default_namespace: false } });
    }
    out
}

pub fn states(tier: &str) -> Vec<State> {
    let types = c02::type_alphabet();
    let mut out = vec![State { label: "seed".into(), depth: 0, set: c02::seed() }, State { label: "kitchen_xsd".into(), depth: 1, set: kitchen_xsd() }, State { label: "kitchen_wsdl".into(), depth: 1, set: kitchen_wsdl() }];
    for p in c02::member_productions(&types, true) {
        let mut s = c02::seed();
        c02::apply_member(&mut s, &p, &types, 1);
        out.push(State { label: c02::member_label(&p, &types), depth: 1, set: s });
    }
    // every builtin once, all occurrences of one builtin
    for (i, (l, _)) in types.iter().enumerate() {
        if l.starts_with("xs:") {
            let mut s = c02::seed();
            c02::apply_member(&mut s, &c02::MemberProd::Elem { ty: i, occ: 1, ctx: "sequence" }, &types, 1);
            c02::apply_member(&mut s, &c02::MemberProd::Attr { ty: i, required: false }, &types, 2);
            out.push(State { label: format!("builtin {l} as element and attribute"), depth: 1, set: s });
        }
    }
    out.extend(c02::component_states());
    {
        let mut k = crate::seeds::kitchen_xsd();
        k.xs_is_default_namespace = true;
        out.push(State { label: "kitchen_xsd spelled with the XML Schema namespace as default namespace".into(), depth: 1, set: k });
    }
    out.extend(c02::name_collision_states());
    out.extend(c02::spelling_collision_states());
    out.extend(rename_states());
    out.extend(multi_file_states());
    out.extend(wsdlgen::wsdl_states(tier == "thorough"));
    if tier == "thorough" {
        out.extend(c02::states("thorough").into_iter().filter(|s| s.depth == 2));
    }
    out
}

fn owner_of_line(ex: &crate::extract::Extract, line: usize) -> String {
    if let Some(s) = ex.structs.iter().find(|s| s.lines.0 <= line && line <= s.lines.1) {
        let kind = if s.module.is_empty() { "root-struct" } else { "namespace-struct" };
        return format!("{kind}-field");
    }
    if let Some(f) = ex.fns.iter().filter(|f| f.line <= line).max_by_key(|f| f.line) {
        if line - f.line < 6 {
            return if f.impl_of.is_some() { "method".into() } else { "free-fn".into() };
        }
    }
    "other".into()
}

pub fn check(tier: &str) -> i32 {
    let mut rep = Report::new("C01", tier, "model_checking");
    let (states, transitions) = dedup_states(states(tier));
    let ran = run_states(&states);
    let mut agg = Agg::new();
    let mut cases = vec![];
    let mut idx_of_case = vec![];
    for (i, (st, r)) in states.iter().zip(ran.iter()).enumerate() {
        if let Some(v) = judge_run("C01", "compile", st, r, production_kind(&st.label)) {
            agg.add(v);
            continue;
        }
        cases.push(BatchCase { id: format!("s{i}"), emitted: r.outcome.text().unwrap().to_string(), driver: None });
        idx_of_case.push(i);
    }
    let res = run_batch("c01", &cases, 30_000);
    let mut compiled_ok = 0u64;
    for (k, c) in cases.iter().enumerate() {
        let i = idx_of_case[k];
        let st = &states[i];
        match res.compile_errors.get(&c.id) {
            None => compiled_ok += 1,
            Some(ds) => {
                let ex = ran[i].extract.as_ref().unwrap().as_ref().unwrap();
                // one violation per distinct (code, owner) in this case
                let mut seen = std::collections::BTreeSet::new();
                for d in ds {
                    let owner = owner_of_line(ex, d.line);
                    let generic_msg: String = d.message.split('`').enumerate().map(|(j, p)| if j % 2 == 1 { "_" } else { p }).collect::<Vec<_>>().join("`");
                    if !seen.insert((d.code.clone(), owner.clone(), generic_msg.clone())) {
                        continue;
                    }
                    agg.add(
                        Violation::new("C01", "out.compile", "compile")
                            .ctx("code", &d.code)
                            .ctx("where", &owner)
                            .ctx("message", &generic_msg)
                            .ctx("production", production_kind(&st.label))
                            .ctx("name.collision", if st.label.contains("name-collision") { "element-and-type-share-a-name" } else if st.label.contains("[yaserde-visitor-names]") { "sibling-elements-differ-in-case-only" } else if st.label.contains("[type-names]") { "type-names-with-one-rust-spelling" } else if st.label.contains("spelling-collision") { "distinct-xml-names-with-one-rust-spelling" } else { "none" })
                            .ctx("documentation.position", if st.label.contains("annotation inside the sequence") { "first-child-of-sequence-or-extension" } else { "type-level" })
                            .exp("rustc accepts the emitted file")
                            .act(format!("{} | line {}: {}", d.message, d.line, d.snippet))
                            .depth(st.depth)
                            .case(case_json(st)),
                    );
                }
            }
        }
        rep.sample(json!({"state": st.label, "compiled": !res.compile_errors.contains_key(&c.id), "output_lines": c.emitted.lines().count()}));
    }
    agg.flush(&mut rep);
    rep.set("states", json!(states.len()));
    rep.set("transitions", json!(transitions));
    rep.set("traces_validated_against_impl", json!(states.len()));
    rep.set("compiled_by_rustc", json!(cases.len()));
    rep.set("compiled_without_error", json!(compiled_ok));
    rep.set("batch", json!({"packages": res.packages, "cache_hits": res.cache_hits, "build_s": res.build_secs}));
    rep.set("max_depth", json!(if tier == "thorough" { 2 } else { 1 }));
    rep.set("exhaustive", json!(true));
    rep.set("bound", json!("XSD seed x {reduced member productions, every builtin as element+attribute, 12 names (6 styles + 6 keywords) x 8 naming positions (5 XSD, WSDL operation, message part, service), 9 multi-file import graphs (3-4 files: chain, diamond, cycle, mutual, self, colliding abbreviations with component-level prefixes, with prefix order differing from import order, with a chain whose leaf shares the root's abbreviation)}; WSDL seed x {operation name styles, input-only, 1-3 header parts per direction, explicit parts, no soapAction, part named as element, elements in an imported namespace, 2-3 operations, service name styles, addresses}; a global element and a type sharing one name in one namespace (3 variants x declaration order); kitchen-sink documents; thorough: all pairs of WSDL productions and the depth-2 member pairs of C02"));
    rep.assume("rustc 1.95 and the six crates at the versions of /repo/Cargo.lock; the package manifest lists exactly those six, so a reference to zeep or any other crate cannot resolve");
    rep.assume("compile results are memoised per package on a hash of all package sources (pure function of the text); zeep itself is always re-run");
    rep.finish()
}

pub fn production_kind(label: &str) -> &str {
    let first = label.split(" ; ").next().unwrap_or(label);
    if let Some(rest) = first.strip_prefix("wsdl ") {
        return rest.split('=').next().unwrap_or(rest);
    }
    if first.starts_with("rename") {
        // "rename <position> to <style> `name`"
        return first.split('`').next().unwrap_or(first).trim();
    }
    first.split(' ').next().unwrap_or(first)
}

pub fn replay(v: &Violation) -> i32 {
    let set: SchemaSet = match serde_json::from_value(v.case["set"].clone()) {
        Ok(s) => s,
        Err(e) => crate::report::machinery(&format!("replay: bad case: {e}")),
    };
    let st = State { label: v.case["label"].as_str().unwrap_or("").into(), depth: v.depth, set };
    let ran = run_states(std::slice::from_ref(&st));
    if let Some(x) = judge_run("C01", "compile", &st, &ran[0], "") {
        println!("VIOLATION property=C01 replay=(replayed) clause={} actual={}", x.clause, x.actual);
        return 1;
    }
    let res = run_batch("c01r", &[BatchCase { id: "r".into(), emitted: ran[0].outcome.text().unwrap().to_string(), driver: None }], 30_000);
    match res.compile_errors.get("r") {
        None => {
            println!("replay C01: {} compiles", st.label);
            0
        }
        Some(ds) => {
            for d in ds {
                println!("VIOLATION property=C01 replay=(replayed) [{}] line {}: {} | {}", d.code, d.line, d.message, d.snippet);
            }
            1
        }
    }
}
