//! C14: schema-supplied text reaches the output only as data, never as code: every Rust keyword
//! (edition 2024) in every naming position, and adversarial strings in every position where
//! schema text flows into the output.

use super::common::*;
use super::wsdlgen::{wsdl_with, OpSpec};
use crate::batch::{run_batch, BatchCase};
use crate::names::{all_keywords, legal_ident};
use crate::reference::find_struct;
use crate::report::{Report, Violation};
use crate::schema::*;
use crate::seeds::*;
use serde_json::json;

const POSITIONS: [&str; 8] = ["element", "attribute", "complexType", "simpleType", "global-element", "operation", "message-part", "service"];
const MARK: &str = "zvmark";

fn payloads() -> Vec<(&'static str, String)> {
    vec![
        ("double-quote", "a\"b".into()),
        ("backslash", "a\\b".into()),
        ("backslash-at-end", "ab\\".into()),
        ("newline", "a\nb".into()),
        ("carriage-return", "a\rb".into()),
        ("open-brace", "a{b".into()),
        ("close-brace", "a}b".into()),
        ("comment-end", "a*/b".into()),
        ("comment-start", "a/*b".into()),
        ("line-comment", "a//b".into()),
        ("injection-string", format!("x\"; fn {MARK}() {{}} //")),
        ("injection-comment", format!("*/ fn {MARK}() {{}} /*")),
        ("injection-expr", format!("0) }}; fn {MARK}() {{}} //")),
        ("non-ascii", "\u{e9}\u{20ac}\u{4e2d}".into()),
        ("raw-string-start", "r#\"".into()),
        ("leading-digit", "3dModel".into()),
        ("bidi-controls", "abc\u{202e}def\u{2066}ghi\u{2069}\u{202c}".into()),
    ]
}

const SINKS: [&str; 11] = ["enumeration-value", "facet-value", "documentation", "namespace-uri", "port-address", "soap-action", "soap-action-urn", "xml-name-element", "xml-name-attribute", "xml-name-type", "xml-name-operation"];

/// names that are legal XML NCNames but stress identifier mapping
fn odd_names() -> Vec<&'static str> {
    // (the last four hold characters that count as alphanumeric but may not stand in a Rust identifier:
    // superscript two, circled one, vulgar fraction, and a Roman numeral letter that may)
    vec!["a.b", "a-b", "x.y-z", "_lead", "\u{e9}\u{fc}", "\u{dc}n\u{ef}", "a1.2b", "A", "a", "_", "__x", "x__y", "Ab.Cd-Ef_gh", "a\u{b2}b", "x\u{2460}y", "m\u{bc}", "Kapitel\u{2167}"]
}

/// names that the generated code itself uses unqualified (std prelude, imported items, derive names)
fn names_used_by_generated_code() -> Vec<&'static str> {
    vec!["Option", "Vec", "String", "Rc", "Box", "Result", "Default", "Debug", "Some", "None", "Ok", "Err", "Clone", "Send", "Sync", "Sized", "Drop", "From", "Into", "Iterator", "ToString", "Write", "Error", "Restrictions", "CheckRestrictions", "YaSerialize", "YaDeserialize", "Client", "Url"]
}

pub fn state_for_name(name: &str, position: &str) -> Option<SchemaSet> {
    match position {
        "element" => {
            let mut s = s1();
            holder_mut(&mut s).seq = Some(Seq::of(vec![el(name, TypeRef::b("string")), el("Other", TypeRef::b("int"))]));
            Some(s)
        }
        "attribute" => {
            let mut s = s1();
            holder_mut(&mut s).attrs.push(Attr { name: name.into(), ty: TypeRef::b("string"), required: true, value_constraint: None });
            Some(s)
        }
        "complexType" => {
            let mut s = s1();
            s.files[0].comps.push(complex(name, vec![el("V", TypeRef::b("string"))]));
            holder_mut(&mut s).seq = Some(Seq::of(vec![el("UsesIt", TypeRef::n(NS_A, name))]));
            Some(s)
        }
        "simpleType" => {
            let mut s = s1();
            s.files[0].comps.push(simple(name, "string", vec![("maxLength", "9")]));
            holder_mut(&mut s).seq = Some(Seq::of(vec![el("UsesIt", TypeRef::n(NS_A, name))]));
            Some(s)
        }
        "global-element" => {
            let mut s = s1();
            s.files[0].comps.push(anon_element(name, vec![el("Inner", TypeRef::b("string"))]));
            holder_mut(&mut s).seq = Some(Seq::of(vec![Particle::Ref(ElemRef { target: QName::new(NS_A, name), min: 1, max: Max::N(1), xmlns: vec![] })]));
            Some(s)
        }
        "operation" => Some(wsdl_with(&[OpSpec { in_headers: 1, ..OpSpec::simple(name) }], "ThingService", "http://127.0.0.1:9/thing")),
        "message-part" => {
            // the part (and therefore the header field) carries the name
            let mut s = wsdl_with(&[OpSpec { in_headers: 1, ..OpSpec::simple("GetThing") }], "ThingService", "http://127.0.0.1:9/thing");
            let w = s.wsdl.as_mut().unwrap();
            for m in w.messages.iter_mut() {
                for p in m.parts.iter_mut() {
                    if p.name == "hdr0" {
                        p.name = name.into();
                    }
                }
            }
            for b in w.b_ops.iter_mut() {
                for h in b.input.headers.iter_mut() {
                    if h.1 == "hdr0" {
                        h.1 = name.into();
                    }
                }
            }
            Some(s)
        }
        "service" => Some(wsdl_with(&[OpSpec::simple("GetThing")], name, "http://127.0.0.1:9/thing")),
        _ => None,
    }
}

/// valid XSD spellings of integer facet values: (label, text, the number it denotes)
fn numeric_spellings() -> Vec<(&'static str, &'static str, i64)> {
    vec![("plus-sign", "+5", 5), ("leading-zeros", "005", 5), ("surrounding-blanks", " 5 ", 5), ("plain", "5", 5), ("plus-and-blanks", " +5", 5)]
}

fn state_for_payload(payload: &str, sink: &str) -> Option<SchemaSet> {
    match sink {
        "facet-numeric-spelling" => {
            let mut s = s1();
            s.files[0].comps.push(simple("Picky", "string", vec![("maxLength", payload)]));
            s.files[0].comps.push(simple("PickyMin", "string", vec![("minLength", payload)]));
            s.files[0].comps.push(simple("PickyInt", "int", vec![("maxInclusive", payload)]));
            s.files[0].comps.push(simple("PickyExc", "int", vec![("minExclusive", payload)]));
            Some(s)
        }
        "enumeration-value" => {
            let mut s = s1();
            s.files[0].comps.push(simple("Picky", "string", vec![("enumeration", "plain"), ("enumeration", payload)]));
            Some(s)
        }
        "facet-value" => {
            let mut s = s1();
            s.files[0].comps.push(simple("Picky", "string", vec![("maxLength", payload)]));
            s.files[0].comps.push(simple("PickyInt", "int", vec![("minInclusive", payload)]));
            Some(s)
        }
        "documentation" => {
            let mut s = s1();
            s.files[0].comps.push(Comp::Complex(ComplexType { name: "Documented".into(), doc: Some(format!("first line\n{payload}\nlast line")), seq: Some(Seq::of(vec![el("V", TypeRef::b("string"))])), ..Default::default() }));
            // (zeep keeps a complex type's documentation only when the type has no sequence)
            s.files[0].comps.push(Comp::Complex(ComplexType { name: "DocumentedAttributesOnly".into(), doc: Some(format!("{payload}\nsecond line {payload}")), seq: None, attrs: vec![Attr { name: "k".into(), ty: TypeRef::b("string"), required: false, value_constraint: None }], ..Default::default() }));
            s.files[0].comps.push(Comp::Simple(SimpleType { name: "DocumentedSimple".into(), doc: Some(payload.to_string()), xmlns: vec![], base: TypeRef::b("string"), facets: vec![], facets_as_attrs: false }));
            Some(s)
        }
        // names are whatever the attribute value says (not every payload is an NCName; the generator
        // may refuse such a name, but what it accepts must reach the output as data only)
        "xml-name-element" => state_for_name(payload, "element"),
        "xml-name-attribute" => state_for_name(payload, "attribute"),
        "xml-name-type" => state_for_name(payload, "complexType"),
        "xml-name-operation" => state_for_name(payload, "operation"),
        "namespace-uri" => {
            let mut s = s0();
            let uri = format!("http://zv.example/ns/{payload}/tail");
            s.files[1].tns = uri.clone();
            s.files[1].prefixes = vec![("b".into(), uri.clone())];
            s.files[0].prefixes = vec![("a".into(), NS_A.into()), ("b".into(), uri.clone())];
            s.files[0].imports = vec![Import { ns: uri.clone(), loc: Some("b.xsd".into()) }];
            holder_mut(&mut s).seq = Some(Seq::of(vec![el("UsesB", TypeRef::n(&uri, "LeafB"))]));
            Some(s)
        }
        "port-address" => Some(wsdl_with(&[OpSpec::simple("GetThing")], "ThingService", &format!("http://127.0.0.1:9/p/{payload}?q={payload}#f"))),
        "soap-action-urn" => {
            // an opaque URI: nothing in it is percent-encoded or normalised by a URL parser
            let mut s = wsdl_with(&[OpSpec::simple("GetThing")], "ThingService", "http://127.0.0.1:9/thing");
            s.wsdl.as_mut().unwrap().b_ops[0].action = Some(format!("urn:zv:act:{payload}"));
            Some(s)
        }
        "soap-action" => {
            let mut s = wsdl_with(&[OpSpec::simple("GetThing")], "ThingService", "http://127.0.0.1:9/thing");
            s.wsdl.as_mut().unwrap().b_ops[0].action = Some(format!("http://zv.example/act/{payload}?x={payload}"));
            Some(s)
        }
        _ => None,
    }
}

struct Case14 {
    state: State,
    kind: &'static str,
    /// keyword / odd name / payload label
    what: String,
    where_: String,
    payload: Option<String>,
}

fn cases(tier: &str) -> Vec<Case14> {
    let mut out = vec![];
    for kw in all_keywords() {
        for pos in POSITIONS {
            // names are used as written and capitalised (type positions often are)
            if let Some(set) = state_for_name(kw, pos) {
                out.push(Case14 { state: State { label: format!("keyword `{kw}` as {pos} name"), depth: 1, set }, kind: "keyword", what: kw.to_string(), where_: pos.to_string(), payload: None });
            }
        }
    }
    for n in odd_names() {
        for pos in POSITIONS {
            if let Some(set) = state_for_name(n, pos) {
                out.push(Case14 { state: State { label: format!("name `{n}` as {pos} name"), depth: 1, set }, kind: "odd-name", what: n.to_string(), where_: pos.to_string(), payload: None });
            }
        }
    }
    for n in names_used_by_generated_code() {
        for pos in ["complexType", "simpleType", "global-element"] {
            if let Some(mut set) = state_for_name(n, pos) {
                // members of every wrapper next to it, so that the generated code needs the std items
                holder_mut(&mut set).seq.get_or_insert_with(|| Seq::of(vec![])).items.extend([el_occ("OptText", TypeRef::b("string"), 0, Max::N(1)), el_occ("ManyNumbers", TypeRef::b("int"), 0, Max::Unbounded)]);
                out.push(Case14 { state: State { label: format!("name `{n}` (used by the generated code itself) as {pos} name"), depth: 1, set }, kind: "std-name", what: n.to_string(), where_: pos.to_string(), payload: None });
            }
        }
    }
    for (pl, p) in payloads() {
        for sink in SINKS {
            if let Some(set) = state_for_payload(&p, sink) {
                out.push(Case14 { state: State { label: format!("payload {pl} in {sink}"), depth: 1, set }, kind: "payload", what: pl.to_string(), where_: sink.to_string(), payload: Some(p.clone()) });
            }
        }
    }
    for (l, text, _) in numeric_spellings() {
        if let Some(set) = state_for_payload(text, "facet-numeric-spelling") {
            out.push(Case14 { state: State { label: format!("numeric facet spelled {l} ({text:?})"), depth: 1, set }, kind: "payload", what: l.to_string(), where_: "facet-numeric-spelling".to_string(), payload: Some(text.to_string()) });
        }
    }
    let _ = tier;
    out
}

pub fn check(tier: &str) -> i32 {
    let mut rep = Report::new("C14", tier, "model_checking");
    let mut agg = Agg::new();
    let cs = cases(tier);
    let plain: Vec<State> = cs.iter().map(|c| State { label: c.state.label.clone(), depth: 1, set: c.state.set.clone() }).collect();
    let ran = run_states(&plain);
    let mut batch = vec![];
    let mut batch_idx = vec![];
    let mut rejected = 0u64;
    let mut clean = 0u64;
    for (k, (c, r)) in cs.iter().zip(ran.iter()).enumerate() {
        let mk = |clause: &str| Violation::new("C14", clause, "text-as-data").ctx("kind", c.kind).ctx("position", &c.where_).ctx("what", if c.kind == "keyword" { "keyword".to_string() } else { c.what.clone() }).depth(1).case(case_json(&c.state));
        match &r.outcome {
            crate::runner::Outcome::Ok(text) => {
                let ex = match r.extract.as_ref().unwrap() {
                    Err(e) => {
                        agg.add(mk("out.parse").exp("the output parses as Rust").act(e));
                        continue;
                    }
                    Ok(ex) => ex,
                };
                let mut bad = false;
                // identifiers: legal, and the marker never becomes one
                for (id, line) in &ex.idents {
                    if !legal_ident(id) && id != "Self" && id != "self" && id != "super" && id != "crate" && id != "_" {
                        bad = true;
                        agg.add(mk("api.ident").ctx("aspect", "illegal-identifier").exp("every identifier is a legal (raw if necessary) identifier").act(format!("`{id}` at line {line}")));
                        break;
                    }
                }
                if ex.idents.iter().chain(ex.macro_idents.iter()).any(|(id, _)| id == MARK) || ex.fns.iter().any(|f| f.name == MARK) {
                    bad = true;
                    agg.add(mk("data.as_code").exp("schema text never becomes an identifier or item").act(format!("`{MARK}` occurs as an identifier / function")));
                }
                if let Some(p) = &c.payload {
                    // where the payload must be found verbatim as DATA
                    let in_string = ex.strings.iter().any(|(s, _)| s.contains(p.as_str()));
                    match c.where_.as_str() {
                        "enumeration-value" => {
                            if !ex.strings.iter().any(|(s, _)| s == p) {
                                bad = true;
                                agg.add(mk("data.literal").exp(format!("a string literal that evaluates to {p:?}")).act("no such literal"));
                            }
                        }
                        "namespace-uri" => {
                            let uri = format!("http://zv.example/ns/{p}/tail");
                            let declared = ex.structs.iter().any(|s| s.ya.namespaces.iter().any(|(_, u)| *u == uri));
                            if !declared {
                                bad = true;
                                agg.add(mk("data.literal").exp(format!("a namespaces entry that evaluates to {uri:?}")).act(format!("declared: {:?}", ex.structs.iter().flat_map(|s| s.ya.namespaces.iter().map(|x| x.1.clone())).collect::<std::collections::BTreeSet<_>>())));
                            }
                        }
                        "xml-name-element" | "xml-name-attribute" => {
                            // the wire name of the member is the original text
                            if !ex.structs.iter().any(|st| st.fields.iter().any(|f| f.ya.rename.as_deref() == Some(p.as_str()))) {
                                bad = true;
                                agg.add(mk("data.literal").exp(format!("a member whose rename literal evaluates to {p:?}")).act("no such member"));
                            }
                        }
                        "xml-name-type" => {
                            if !ex.structs.iter().any(|st| st.ya.rename.as_deref() == Some(p.as_str())) {
                                bad = true;
                                agg.add(mk("data.literal").exp(format!("a struct whose rename literal evaluates to {p:?}")).act("no such struct"));
                            }
                        }
                        _ => {
                            let _ = in_string;
                        }
                    }
                }
                if !bad {
                    clean += 1;
                }
                // compile: every keyword / odd-name case in the thorough tier, a rotating subset in quick; all payload cases
                let compile = c.kind == "payload" || c.kind == "std-name" || tier == "thorough" || k % 3 == 0;
                if compile {
                    let mut driver = None;
                    if let (Some(p), "enumeration-value") = (&c.payload, c.where_.as_str()) {
                        if let Some(st) = find_struct(ex, NS_A, "Picky").first() {
                            let path = format!("zg::{}", st.path().join("::"));
                            driver = Some(format!(
                                "use zg::restrictions::CheckRestrictions;\npub fn run(out: &mut zvp::Out) {{\n    let member = {path} {{ value: {p:?}.to_string() }};\n    let other = {path} {{ value: \"zv-not-a-member\".to_string() }};\n    out.emit(\"member\", if member.check_restrictions(None).is_ok() {{ \"Ok\" }} else {{ \"Err\" }});\n    out.emit(\"other\", if other.check_restrictions(None).is_ok() {{ \"Ok\" }} else {{ \"Err\" }});\n}}\n"
                            ));
                        }
                    }
                    if c.where_ == "facet-numeric-spelling" {
                        let path = |n: &str| find_struct(ex, NS_A, n).first().map(|st| format!("zg::{}", st.path().join("::")));
                        if let (Some(a), Some(b), Some(ci), Some(e)) = (path("Picky"), path("PickyMin"), path("PickyInt"), path("PickyExc")) {
                            driver = Some(format!(
                                "use zg::restrictions::CheckRestrictions;\npub fn run(out: &mut zvp::Out) {{\n    let ok = |r: bool| if r {{ \"Ok\" }} else {{ \"Err\" }};\n    let v = |s: &str| s.to_string();\n    out.emit(\"verdicts\", &[ok({a} {{ value: v(\"abcde\") }}.check_restrictions(None).is_ok()), ok({a} {{ value: v(\"abcdef\") }}.check_restrictions(None).is_ok()), ok({b} {{ value: v(\"abcde\") }}.check_restrictions(None).is_ok()), ok({b} {{ value: v(\"abcd\") }}.check_restrictions(None).is_ok()), ok({ci} {{ value: v(\"5\") }}.check_restrictions(None).is_ok()), ok({ci} {{ value: v(\"6\") }}.check_restrictions(None).is_ok()), ok({e} {{ value: v(\"6\") }}.check_restrictions(None).is_ok()), ok({e} {{ value: v(\"5\") }}.check_restrictions(None).is_ok())].join(\",\"));\n}}\n"
                            ));
                        }
                    }
                    batch.push(BatchCase { id: format!("s{k}"), emitted: text.clone(), driver });
                    batch_idx.push(k);
                }
                if k % 61 == 0 {
                    rep.sample(json!({"case": c.state.label, "parsed": true}));
                }
            }
            crate::runner::Outcome::Err { msg, .. } => {
                // no output: nothing can be injected. A keyword or an NCName as a name is in-subset and must be accepted
                rejected += 1;
                if c.kind != "payload" {
                    agg.add(mk("run.rejected").exp("a keyword / NCName is usable as a name").act(msg));
                }
            }
            o => agg.add(mk("run.panic").exp("Ok or Err").act(o.brief())),
        }
    }
    let res = run_batch("c14", &batch, 30_000);
    let mut compiled_ok = 0u64;
    for (b, k) in batch.iter().zip(batch_idx.iter()) {
        let c = &cs[*k];
        let mk = |clause: &str| Violation::new("C14", clause, "text-as-data").ctx("kind", c.kind).ctx("position", &c.where_).ctx("what", if c.kind == "keyword" { "keyword".to_string() } else { c.what.clone() }).depth(1).case(case_json(&c.state));
        match res.compile_errors.get(&b.id) {
            Some(ds) => {
                let d = &ds[0];
                agg.add(mk("out.compile").ctx("code", &d.code).ctx("derive", if d.message.contains("proc-macro derive panicked") { "panicked" } else { "n/a" }).exp("the output compiles").act(format!("{} | line {}: {}", d.message, d.line, d.snippet)));
            }
            None => {
                compiled_ok += 1;
                if let Some(lines) = res.lines.get(&b.id) {
                    let get = |k: &str| lines.iter().find(|l| l["k"] == k).and_then(|l| l["v"].as_str()).unwrap_or("");
                    if c.where_ == "facet-numeric-spelling" {
                        if get("verdicts") != "Ok,Err,Ok,Err,Ok,Err,Ok,Err" {
                            agg.add(mk("data.literal").ctx("aspect", "numeric-facet-value").exp("the facet is enforced with the number the schema text denotes (5): Ok,Err,Ok,Err,Ok,Err,Ok,Err").act(get("verdicts")));
                        }
                    } else if b.driver.is_some() && (get("member") != "Ok" || get("other") != "Err") {
                        agg.add(mk("data.literal").ctx("aspect", "run-time").exp("the original text is a member of the enumeration at run time, another text is not").act(format!("member={} other={}", get("member"), get("other"))));
                    }
                }
            }
        }
    }
    agg.flush(&mut rep);
    rep.set("states", json!(cs.len()));
    rep.set("transitions", json!(cs.len()));
    rep.set("traces_validated_against_impl", json!(cs.len()));
    rep.set("states_without_any_discrepancy", json!(clean));
    rep.set("inputs_rejected_without_output", json!(rejected));
    rep.set("compiled", json!(batch.len()));
    rep.set("compiled_without_error", json!(compiled_ok));
    rep.set("exhaustive", json!(true));
    rep.set("bound", json!(format!("complete product: {} keywords (strict, reserved, weak; edition 2024) x 8 naming positions (element, attribute, complex type, simple type, global element, operation, message part, service); {} unusual NCNames x the same positions; {} payload strings (quote, backslash, newline, carriage return, braces, comment delimiters, three injection payloads carrying a marker function, non-ASCII, raw-string opener) x 11 sinks (enumeration value, facet value, documentation, namespace URI, port address, soapAction in http and in urn form, and the name of an element, an attribute, a complex type, an operation); 5 valid XSD spellings of a numeric facet value (+5, 005, blanks) whose enforcement is checked at run time", all_keywords().len(), odd_names().len(), payloads().len())));
    rep.assume("an input that the generator rejects produces no output, so nothing can be injected; rejection is a violation only for keyword / NCName names (in-subset), not for payload strings (e.g. a non-numeric facet value is not a valid schema)");
    rep.assume("a payload used as a NAME is not an NCName; the generator may refuse it (no output, no verdict), but what it accepts must appear as data only");
    rep.finish()
}
