//! C05: every WSDL operation gets correct SOAP envelopes and one client method.
//! C18: client futures are Send; envelopes are Send + Sync (same states, same compiled packages).

use super::common::*;
use super::wsdlgen;
use crate::batch::{run_batch, BatchCase};
use crate::extract::{is_pascal_ident, is_snake_ident, norm, Extract};
use crate::reference::RefModel;
use crate::report::{Report, Violation};
use crate::schema::SchemaSet;
use crate::soap::{discover, envelope_value, expected_ops, fn_for_op, ExpOp, SoapView};
use crate::wire::{compare_doc, print_instance};
use serde_json::json;
use std::collections::BTreeMap;

pub struct OpPlan {
    pub op: ExpOp,
    pub method: Option<String>,
    pub free_fn: Option<String>,
    pub req_expr: Option<String>,
    pub req_type: Option<String>,
    pub req_expected: Option<crate::wire::ExpElem>,
    pub resp_type: Option<String>,
    pub resp_expr: Option<String>,
    pub resp_expected: Option<crate::wire::ExpElem>,
    pub has_headers: bool,
}

pub struct Plan {
    pub service_type: Option<String>,
    pub ops: Vec<OpPlan>,
}

fn no_override(_: &str) -> Option<(String, crate::wire::Lex)> {
    None
}

/// static (item-model) judgement of the client surface + the plan for the driver
pub fn static_check(property: &str, st: &State, ex: &Extract, set: &SchemaSet, agg: &mut Agg) -> Plan {
    let model = RefModel::build(set);
    let ops = expected_ops(set);
    let view: SoapView = discover(ex);
    let w = set.wsdl.as_ref().unwrap();
    let opctx = |v: Violation, op: &ExpOp| {
        let style = wsdlgen::OP_NAME_STYLES.iter().find(|(_, n)| norm(n) == norm(&op.name) && *n == op.name).map(|(s, _)| *s).unwrap_or("other");
        v.ctx("operation.output", op.output.is_some()).ctx("operation.headers", format!("{}/{}", op.input.headers.len(), op.output.as_ref().map(|o| o.headers.len()).unwrap_or(0))).ctx("operation.name_style", style).depth(st.depth).case(case_json(st))
    };
    let mk = |clause: &str| Violation::new(property, clause, "wsdl-operations");
    // the service struct
    let svc = view.services.iter().find(|(s, _)| norm(&s.name) == norm(&w.service));
    let mut plan = Plan { service_type: None, ops: vec![] };
    match svc {
        None => agg.add(mk("client.service").exp(format!("a client struct named after service `{}` with one async method per operation", w.service)).act(format!("structs with async methods: {:?}", view.services.iter().map(|(s, _)| s.name.clone()).collect::<Vec<_>>())).depth(st.depth).case(case_json(st))),
        Some((s, methods)) => {
            plan.service_type = Some(format!("zg::{}", s.path().join("::")));
            if !is_pascal_ident(&s.name) || !s.is_pub {
                agg.add(mk("client.service").ctx("aspect", "name-style").exp("a public PascalCase type").act(&s.name).depth(st.depth).case(case_json(st)));
            }
            // exactly one method per operation, nothing else
            for m in methods {
                if !ops.iter().any(|o| norm(&o.name) == norm(&m.f.name)) && m.f.is_pub && m.req.is_some() {
                    agg.add(mk("client.method").ctx("aspect", "extra").exp("one async method per operation, nothing else").act(format!("method `{}`", m.f.name)).depth(st.depth).case(case_json(st)));
                }
            }
        }
    }
    for op in &ops {
        let methods = svc.map(|(_, ms)| fn_for_op(ms, &op.name)).unwrap_or_default();
        let mut opp = OpPlan { op: op.clone(), method: None, free_fn: None, req_expr: None, req_type: None, req_expected: None, resp_type: None, resp_expr: None, resp_expected: None, has_headers: !op.input.headers.is_empty() };
        if svc.is_some() {
            if methods.len() != 1 {
                agg.add(opctx(mk("client.method").ctx("aspect", "count").exp(format!("exactly one method for operation `{}`", op.name)).act(format!("{} methods", methods.len())), op));
            }
        }
        let free = fn_for_op(&view.free_fns, &op.name);
        if let Some(f) = free.first() {
            opp.free_fn = Some(format!("zg::{}", f.f.name));
        }
        let cf = methods.first().copied().or(free.first().copied());
        if let Some(m) = methods.first() {
            opp.method = Some(m.f.name.clone());
            if !m.f.is_pub || !is_snake_ident(&m.f.name) {
                agg.add(opctx(mk("client.method").ctx("aspect", "name-style").exp("a public snake_case async fn").act(&m.f.name), op));
            }
        }
        if let Some(m) = cf {
            // request envelope
            match m.req {
                None => agg.add(opctx(mk("soap.envelope").ctx("direction", "request").exp("the method takes the request envelope type").act(format!("args {:?}", m.f.args.iter().map(|a| a.1.text.clone()).collect::<Vec<_>>())), op)),
                Some(env) => {
                    let v = envelope_value(ex, &model, env, &op.input, true, &no_override);
                    if !v.problems.is_empty() {
                        agg.add(opctx(mk("soap.envelope").ctx("direction", "request").ctx("aspect", "shape").exp("an Envelope struct with soapenv Header/Body members typed by the bound parts' element structs").act(format!("{:?}", v.problems)), op));
                    } else {
                        opp.req_expr = Some(v.expr);
                        opp.req_expected = Some(v.expected);
                    }
                    opp.req_type = Some(format!("zg::{}", env.path().join("::")));
                }
            }
            // response envelope iff output
            match (&op.output, m.resp) {
                (Some(out), Some(env)) => {
                    let v = envelope_value(ex, &model, env, out, true, &no_override);
                    if !v.problems.is_empty() {
                        agg.add(opctx(mk("soap.envelope").ctx("direction", "response").ctx("aspect", "shape").exp("an Envelope struct with soapenv Header/Body members typed by the bound parts' element structs").act(format!("{:?}", v.problems)), op));
                    } else {
                        opp.resp_expr = Some(v.expr);
                        opp.resp_expected = Some(v.expected);
                    }
                    opp.resp_type = Some(format!("zg::{}", env.path().join("::")));
                }
                (Some(_), None) => agg.add(opctx(mk("soap.envelope").ctx("direction", "response").exp("the method returns the response envelope type").act(&m.ret_text), op)),
                (None, Some(env)) => agg.add(opctx(mk("soap.envelope").ctx("direction", "response").exp("no response envelope for an operation without output").act(&env.name), op)),
                (None, None) => {}
            }
        } else if svc.is_none() && free.is_empty() {
            agg.add(opctx(mk("client.method").ctx("aspect", "count").exp(format!("a client method for operation `{}`", op.name)).act("none"), op));
        }
        plan.ops.push(opp);
    }
    plan
}

/// driver: serialize envelopes, deserialize canned responses, call through the loopback listener,
/// assert Send/Sync (C18)
pub fn driver_for(plan: &Plan, set: &SchemaSet) -> String {
    let w = set.wsdl.as_ref().unwrap();
    let mut d = String::from("pub fn run(out: &mut zvp::Out) {\n");
    if let Some(svc) = &plan.service_type {
        d.push_str(&format!("    let probe = {svc}::new(None);\n    out.emit(\"location\", &probe.location);\n"));
    }
    for (i, _) in plan.ops.iter().enumerate() {
        d.push_str(&format!("    op{i}(out);\n"));
    }
    d.push_str("}\n");
    let _ = w;
    for (i, op) in plan.ops.iter().enumerate() {
        d.push_str(&format!("fn op{i}(out: &mut zvp::Out) {{\n"));
        if let (Some(t), Some(e)) = (&op.req_type, &op.req_expr) {
            d.push_str(&format!("    let req: {t} = {e};\n    out.emit(\"req:{i}\", &zvp::ser(&req));\n    zvp::assert_send_sync::<{t}>();\n"));
            // canned response (other prefixes) and the exact serialization
            let mut resp_body = String::new();
            if let (Some(rt), Some(re), Some(rx)) = (&op.resp_type, &op.resp_expr, &op.resp_expected) {
                let canned = print_instance(rx, 0);
                d.push_str(&format!("    zvp::assert_send_sync::<{rt}>();\n    let resp: {rt} = {re};\n    out.emit(\"resp:{i}\", &zvp::ser(&resp));\n    out.emit(\"respdbg:{i}\", &format!(\"{{:?}}\", resp));\n"));
                d.push_str(&format!("    match zvp::de::<{rt}>({canned:?}) {{ Ok(r) => out.emit(\"canned:{i}\", &format!(\"Ok:{{:?}}\", r)), Err(e) => out.emit(\"canned:{i}\", &format!(\"Err:{{e}}\")) }}\n"));
                resp_body = canned;
            }
            if let (Some(svc), Some(m)) = (&plan.service_type, &op.method) {
                // the call: location overridden to the loopback listener, path kept recognisable
                d.push_str(&format!(
                    "    {{\n        let server = zvp::serve(vec![zvp::Reply::Http(200, {resp_body:?}.to_string())]);\n        let mut svc = {svc}::new(None);\n        svc.location = server.url(\"/zv/op{i}?q=1\");\n        {{ let svc0 = {svc}::new(None); let f0 = svc0.{m}({e}); zvp::assert_send(&f0); drop(f0); }}\n        let fut = async move {{ svc.{m}(req).await }};\n        zvp::assert_send(&fut);\n        let rt = zvp::runtime();\n        let r = rt.block_on(async move {{ tokio::spawn(fut).await }});\n        match r {{ Ok(Ok(v)) => out.emit(\"call:{i}\", \"Ok\"), Ok(Err(e)) => out.emit(\"call:{i}\", &format!(\"Err:{{e}}\")), Err(e) => out.emit(\"call:{i}\", &format!(\"JoinErr:{{e}}\")) }}\n        let reqs = server.requests();\n        out.emit_kv(\"http:{i}\", &[(\"connections\", server.connections().to_string()), (\"method\", reqs.first().map(|r| r.method.clone()).unwrap_or_default()), (\"target\", reqs.first().map(|r| r.target.clone()).unwrap_or_default()), (\"body\", reqs.first().map(|r| r.body.clone()).unwrap_or_default())]);\n    }}\n"
                ));
            }
            if let Some(ff) = &op.free_fn {
                // the free-standing function: only the Send property is exercised here (it posts to the soapAction URL)
                d.push_str(&format!("    {{\n        let req2: {t} = {e};\n        let fut = {ff}(req2, None);\n        zvp::assert_send(&fut);\n        drop(fut);\n        out.emit(\"freefn:{i}\", \"send-ok\");\n    }}\n"));
            }
        }
        d.push_str("}\n");
    }
    d
}

pub struct Prepared {
    pub states: Vec<State>,
    pub transitions: u64,
    pub plans: BTreeMap<usize, Plan>,
    pub cases: Vec<BatchCase>,
}

pub fn prepare(property: &str, tier: &str, agg: &mut Agg) -> Prepared {
    let (states, transitions) = dedup_states(wsdlgen::wsdl_states(true) /* since round 4 the quick tier explores the thorough bound (depth 2) */);
    let ran = run_states(&states);
    let mut plans = BTreeMap::new();
    let mut cases = vec![];
    for (i, (st, r)) in states.iter().zip(ran.iter()).enumerate() {
        if let Some(v) = judge_run(property, "wsdl-operations", st, r, super::c01::production_kind(&st.label)) {
            if property == "C05" {
                agg.add(v);
            }
            continue;
        }
        let ex = r.extract.as_ref().unwrap().as_ref().unwrap();
        let mut local = Agg::new();
        let plan = static_check(property, st, ex, &st.set, &mut local);
        if property == "C05" {
            for (_, (v, _)) in local.map {
                agg.add(v);
            }
        }
        cases.push(BatchCase { id: format!("s{i}"), emitted: r.outcome.text().unwrap().to_string(), driver: Some(driver_for(&plan, &st.set)) });
        plans.insert(i, plan);
    }
    Prepared { states, transitions, plans, cases }
}

fn lines_map(lines: &[serde_json::Value]) -> BTreeMap<String, serde_json::Value> {
    let mut m = BTreeMap::new();
    for l in lines {
        if let Some(k) = l["k"].as_str() {
            m.insert(k.to_string(), l.clone());
        }
    }
    m
}

pub fn check_c05(tier: &str) -> i32 {
    let mut rep = Report::new("C05", tier, "model_checking");
    let mut agg = Agg::new();
    let p = prepare("C05", tier, &mut agg);
    let res = run_batch("c05", &p.cases, 60_000);
    let mut ops_judged = 0u64;
    for (i, plan) in &p.plans {
        let st = &p.states[*i];
        let id = format!("s{i}");
        let w = st.set.wsdl.as_ref().unwrap();
        let mk = |clause: &str| Violation::new("C05", clause, "wsdl-operations").depth(st.depth).case(case_json(st));
        if let Some(ds) = res.compile_errors.get(&id) {
            let d = &ds[0];
            agg.add(mk("out.compile").ctx("in_driver", d.in_driver).ctx("code", &d.code).ctx("production", super::c01::production_kind(&st.label)).exp("emitted client and the driver built from its discovered surface compile").act(format!("{} | {}", d.message, d.snippet)));
            continue;
        }
        if let Some(f) = res.run_failures.get(&id) {
            agg.add(mk("run.failure").exp("driver runs to completion").act(f));
        }
        let lm = lines_map(res.lines.get(&id).map(|v| v.as_slice()).unwrap_or(&[]));
        // address
        if let Some(loc) = lm.get("location").and_then(|l| l["v"].as_str()) {
            // a URL parser adds the path "/" to a bare authority; any other difference is a difference
            let bare_authority = w.address.splitn(4, '/').count() < 4;
            let same = loc == w.address || (bare_authority && loc.trim_end_matches('/') == w.address.trim_end_matches('/'));
            if !same {
                agg.add(mk("client.address").ctx("aspect", "default-location").exp(&w.address).act(loc));
            }
        }
        for (k, op) in plan.ops.iter().enumerate() {
            ops_judged += 1;
            let opmk = |clause: &str| mk(clause).ctx("operation.output", op.op.output.is_some()).ctx("operation.headers", format!("{}/{}", op.op.input.headers.len(), op.op.output.as_ref().map(|o| o.headers.len()).unwrap_or(0)));
            if let (Some(exp), Some(s)) = (&op.req_expected, lm.get(&format!("req:{k}")).and_then(|l| l["v"].as_str())) {
                match s.strip_prefix("Ok:") {
                    None => agg.add(opmk("soap.envelope").ctx("direction", "request").exp("serializes").act(s)),
                    Some(xml) => {
                        for d in compare_doc(xml, exp) {
                            let clause = if d.tag.starts_with("header") || d.path.contains("/Header") { "soap.header" } else if d.path.contains("/Body") { "soap.body" } else { "soap.envelope" };
                            agg.add(opmk(clause).ctx("direction", "request").ctx("wire", d.clause).exp(format!("{} at {}", d.expected, d.path)).act(d.actual));
                        }
                    }
                }
            }
            if let (Some(exp), Some(s)) = (&op.resp_expected, lm.get(&format!("resp:{k}")).and_then(|l| l["v"].as_str())) {
                if let Some(xml) = s.strip_prefix("Ok:") {
                    for d in compare_doc(xml, exp) {
                        let clause = if d.tag.starts_with("header") || d.path.contains("/Header") { "soap.header" } else if d.path.contains("/Body") { "soap.body" } else { "soap.envelope" };
                        agg.add(opmk(clause).ctx("direction", "response").ctx("wire", d.clause).exp(format!("{} at {}", d.expected, d.path)).act(d.actual));
                    }
                }
            }
            if let (Some(c), Some(dbg)) = (lm.get(&format!("canned:{k}")).and_then(|l| l["v"].as_str()), lm.get(&format!("respdbg:{k}")).and_then(|l| l["v"].as_str())) {
                match c.strip_prefix("Ok:") {
                    None => agg.add(opmk("soap.envelope").ctx("direction", "response").ctx("aspect", "deserialize").exp("a response in other prefixes deserializes").act(c)),
                    Some(got) if got != dbg => agg.add(opmk("soap.envelope").ctx("direction", "response").ctx("aspect", "deserialize").exp(crate::report::trunc(dbg, 300)).act(crate::report::trunc(got, 300))),
                    _ => {}
                }
            }
            if let Some(h) = lm.get(&format!("http:{k}")) {
                let target = h["target"].as_str().unwrap_or("");
                if h["connections"].as_str() != Some("1") || h["method"].as_str() != Some("POST") || target != format!("/zv/op{k}?q=1") {
                    agg.add(opmk("client.address").ctx("aspect", "request-target").exp(format!("one POST to /zv/op{k}?q=1 (the service's location)")).act(format!("connections={} method={} target={}", h["connections"], h["method"], target)));
                }
                if let (Some(exp), Some(body)) = (&op.req_expected, h["body"].as_str()) {
                    if !compare_doc(body, exp).is_empty() && lm.get(&format!("req:{k}")).and_then(|l| l["v"].as_str()).map(|s| s.strip_prefix("Ok:") != Some(body)).unwrap_or(true) {
                        agg.add(opmk("soap.envelope").ctx("direction", "request").ctx("aspect", "posted-body").exp("the posted body is the serialized request envelope").act(crate::report::trunc(body, 300)));
                    }
                }
                if op.op.output.is_some() {
                    if let Some(c) = lm.get(&format!("call:{k}")).and_then(|l| l["v"].as_str()) {
                        if c != "Ok" {
                            agg.add(opmk("client.method").ctx("aspect", "call-result").exp("Ok(response envelope) for a 200 reply carrying the envelope").act(c));
                        }
                    }
                }
            }
        }
        rep.sample(json!({"state": st.label, "operations": plan.ops.iter().map(|o| o.op.name.clone()).collect::<Vec<_>>(), "request": lm.get("req:0").and_then(|l| l["v"].as_str())}));
    }
    agg.flush(&mut rep);
    rep.set("states", json!(p.states.len()));
    rep.set("transitions", json!(p.transitions));
    rep.set("traces_validated_against_impl", json!(p.plans.len()));
    rep.set("operations_judged", json!(ops_judged));
    rep.set("batch", json!({"packages": res.packages, "cache_hits": res.cache_hits, "build_s": res.build_secs, "run_s": res.run_secs}));
    rep.set("exhaustive", json!(true));
    rep.set("bound", json!("WSDL seed (one service, one operation) x every single production: 5 operation name styles, input-only, 1-3 header parts on input / output, explicit parts, no soapAction, part named as its element, elements in an imported namespace, 2 and 3 operations, 4 service name styles, 3 address forms; thorough: all pairs of productions and a second operation with each production"));
    rep.assume("envelope / header / body / service items are discovered (soapenv namespace, Envelope/Header/Body renames, method argument types), never assumed by name");
    rep.assume("the call goes to a loopback listener whose URL replaces the service's public location field; the WSDL address itself is compared with the location the constructor sets");
    rep.finish()
}

pub fn check_c18(tier: &str) -> i32 {
    let mut rep = Report::new("C18", tier, "model_checking");
    let mut agg = Agg::new();
    let p = prepare("C18", tier, &mut agg);
    let res = run_batch("c05", &p.cases, 60_000);
    let mut shapes = std::collections::BTreeSet::new();
    let mut futures = 0u64;
    for (i, plan) in &p.plans {
        let st = &p.states[*i];
        let id = format!("s{i}");
        let mk = |clause: &str| Violation::new("C18", clause, "client-shapes").depth(st.depth).case(case_json(st));
        if let Some(ds) = res.compile_errors.get(&id) {
            for d in ds {
                let sendish = d.message.contains("cannot be sent between threads") || d.message.contains("cannot be shared between threads") || d.message.contains("Send") || d.message.contains("Sync");
                if sendish {
                    agg.add(mk("send.not_send").ctx("code", &d.code).ctx("in_driver", d.in_driver).exp("client futures are Send; envelopes are Send + Sync").act(format!("{} | {}", d.message, d.snippet)));
                }
            }
            continue;
        }
        let lm = lines_map(res.lines.get(&id).map(|v| v.as_slice()).unwrap_or(&[]));
        for (k, op) in plan.ops.iter().enumerate() {
            shapes.insert(format!("output={} headers={} method={} freefn={}", op.op.output.is_some(), op.has_headers, op.method.is_some(), op.free_fn.is_some()));
            if op.method.is_some() && op.req_expr.is_some() {
                futures += 1;
                match lm.get(&format!("call:{k}")).and_then(|l| l["v"].as_str()) {
                    Some(c) if c.starts_with("JoinErr") => agg.add(mk("send.spawn").exp("the spawned call completes on the multi-threaded runtime").act(c)),
                    None => agg.add(mk("send.spawn").exp("the spawned call completes on the multi-threaded runtime").act("no observation (driver did not get there)")),
                    _ => {}
                }
            }
            if op.free_fn.is_some() && op.req_expr.is_some() {
                futures += 1;
                if lm.get(&format!("freefn:{k}")).is_none() {
                    agg.add(mk("send.spawn").ctx("fn", "free-standing").exp("the free-standing function's future is created and is Send").act("no observation"));
                }
            }
        }
        rep.sample(json!({"state": st.label, "asserted": plan.ops.iter().map(|o| format!("{}: method={:?} free_fn={:?}", o.op.name, o.method, o.free_fn)).collect::<Vec<_>>()}));
    }
    // the fixed helper code with a Send-but-not-Sync request envelope (the property says: Send whenever the request envelope is)
    match helper_send_case() {
        Err(why) => rep.set("helper_probe", json!(format!("not applicable: {why}"))),
        Ok(helper_case) => {
            let hres = run_batch("c18h", &[helper_case], 60_000);
            match hres.compile_errors.get("helper") {
                Some(ds) => {
                    let send_related: Vec<_> = ds.iter().filter(|d| d.message.contains("cannot be sent between threads") || d.message.contains("cannot be shared between threads")).collect();
                    if let Some(d) = send_related.first() {
                        agg.add(Violation::new("C18", "send.not_send", "helper").ctx("envelope", "send-not-sync").exp("the helper's future is Send for a request envelope that is Send (but not Sync)").act(format!("{} | {}", d.message, d.snippet)).depth(0).case(json!({"case": "helper functions discovered in the emitted file, driven with a hand-written Send + !Sync envelope"})));
                    } else {
                        // the probe does not fit the helper's current shape: no verdict
                        rep.set("helper_probe", json!(format!("not applicable: probe does not compile for another reason: {}", ds[0].message)));
                    }
                }
                None => {
                    let n: u64 = hres.lines.get("helper").and_then(|l| l.first()).and_then(|l| l["v"].as_str()).and_then(|s| s.parse().ok()).unwrap_or(0);
                    futures += n;
                    rep.set("helper_probe", json!(format!("{n} helper function(s) driven with a Send + !Sync envelope: futures are Send")));
                }
            }
        }
    }
    // the shared-reference wrapper of the fixed helper code: an envelope edited to hold one must stay Send + Sync
    match multiref_case() {
        Err(why) => rep.set("multiref_probe", json!(format!("not applicable: {why}"))),
        Ok(case) => {
            let mres = run_batch("c18m", &[case], 60_000);
            match mres.compile_errors.get("multiref") {
                Some(ds) => {
                    let send_related: Vec<_> = ds.iter().filter(|d| d.message.contains("cannot be sent between threads") || d.message.contains("cannot be shared between threads")).collect();
                    if let Some(d) = send_related.first() {
                        agg.add(Violation::new("C18", "send.not_send", "helper").ctx("envelope", "holds-multi-ref").exp("MultiRef<T> of the fixed helper code is Send + Sync when T is").act(format!("{} | {}", d.message, d.snippet)).depth(0).case(json!({"case": "multi_ref::MultiRef of the emitted file instantiated with the request envelope and with String"})));
                    } else {
                        rep.set("multiref_probe", json!(format!("not applicable: probe does not compile for another reason: {}", ds[0].message)));
                    }
                }
                None => rep.set("multiref_probe", json!("MultiRef<request envelope> and MultiRef<String> are Send + Sync")),
            }
        }
    }
    agg.flush(&mut rep);
    rep.set("states", json!(p.states.len()));
    rep.set("transitions", json!(p.transitions));
    rep.set("traces_validated_against_impl", json!(p.plans.len()));
    rep.set("futures_asserted_send", json!(futures));
    rep.set("distinct_client_shapes", json!(shapes));
    rep.set("batch", json!({"packages": res.packages, "cache_hits": res.cache_hits, "build_s": res.build_secs}));
    rep.set("exhaustive", json!(true));
    rep.set("bound", json!("every state of the C05 scope (all generated client shapes: with/without headers, with/without output, service methods and free-standing soapAction functions) + the fixed helper driven with a hand-written request envelope that is Send but not Sync + the helper's MultiRef wrapper instantiated with an envelope"));
    rep.assume("the per-program verdict is rustc's trait solver (exact for auto traits); the exploration is over client shapes");
    rep.finish()
}

/// `MultiRef` of the emitted file (found by name in a top-level module) must be Send + Sync for a Send + Sync payload
fn multiref_case() -> Result<BatchCase, String> {
    let set = wsdlgen::wsdl_with(&[wsdlgen::OpSpec::simple("GetThing")], "ThingService", "http://127.0.0.1:9/thing");
    let text = match crate::runner::run_inproc(&set.to_case()) {
        crate::runner::Outcome::Ok(s) => s,
        o => return Err(format!("generator: {}", o.brief())),
    };
    let ex = crate::extract::extract(&text).map_err(|e| format!("parse: {e}"))?;
    let mr = ex.structs.iter().find(|s| s.name == "MultiRef" && s.module.len() == 1).ok_or("no top-level module defines a struct MultiRef")?;
    let view = discover(&ex);
    let req_env = view.services.iter().flat_map(|(_, ms)| ms.iter()).find_map(|m| m.req.map(|a| a.name.clone())).ok_or("no request envelope")?;
    let path = format!("{}::MultiRef", mr.module[0]);
    let appended = format!("\npub fn zv_multiref_probe() -> usize {{\n    fn ss<T: Send + Sync>() {{}}\n    ss::<{req_env}>();\n    ss::<{path}<{req_env}>>();\n    ss::<{path}<String>>();\n    2\n}}\n");
    Ok(BatchCase { id: "multiref".into(), emitted: format!("{text}\n{appended}"), driver: Some("pub fn run(out: &mut zvp::Out) { let n = zg::zv_multiref_probe(); out.emit(\"multiref\", &n.to_string()); }".into()) })
}

/// A case that drives the fixed helper code with a request envelope that is Send but NOT Sync
/// (holds a Cell). The helper functions are discovered in the emitted file (async fns of a private
/// module that take a reqwest client or a url and a generic request); the call is built from the
/// discovered parameter list, so a consistent refactoring of the helper cannot raise an alarm.
/// Returns None (and a note) when no helper of a recognisable shape is found.
fn helper_send_case() -> Result<BatchCase, String> {
    let set = wsdlgen::wsdl_with(&[wsdlgen::OpSpec::simple("GetThing")], "ThingService", "http://127.0.0.1:9/thing");
    let text = match crate::runner::run_inproc(&set.to_case()) {
        crate::runner::Outcome::Ok(s) => s,
        o => return Err(format!("generator: {}", o.brief())),
    };
    let ex = crate::extract::extract(&text).map_err(|e| format!("parse: {e}"))?;
    let view = discover(&ex);
    let (req_env, resp_env) = view.services.iter().flat_map(|(_, ms)| ms.iter()).find_map(|m| match (m.req, m.resp) { (Some(a), Some(b)) => Some((a.name.clone(), b.name.clone())), _ => None }).ok_or("no request/response envelope pair")?;
    let mut probes = String::new();
    let mut n = 0;
    for f in ex.fns.iter().filter(|f| f.is_async && f.impl_of.is_none() && f.module.len() == 1 && !f.has_self) {
        // build the argument list from the parameter types
        let mut args = vec![];
        let mut ok = true;
        let mut has_req = false;
        for (_, t) in &f.args {
            let txt = t.text.as_str();
            let a = if txt == "&Client" || txt == "&reqwest::Client" {
                "&c".to_string()
            } else if txt == "Client" || txt == "reqwest::Client" {
                "c.clone()".to_string()
            } else if txt == "&str" {
                "\"http://127.0.0.1:9/x\"".to_string()
            } else if txt == "String" {
                "\"http://127.0.0.1:9/x\".to_string()".to_string()
            } else if txt.starts_with("Option<(") {
                "None::<(&str, &str)>".to_string()
            } else if t.path.len() == 1 && t.path[0].chars().all(|c| c.is_ascii_uppercase() || c.is_ascii_digit()) && !has_req {
                // a bare generic parameter (or a reference to one): the request
                has_req = true;
                if txt.starts_with('&') { "&v".to_string() } else { "v".to_string() }
            } else {
                ok = false;
                String::new()
            };
            args.push(a);
        }
        if !ok || !has_req {
            continue;
        }
        n += 1;
        probes.push_str(&format!(
            "pub async fn zv_probe_{n}(c: reqwest::Client, v: ZvCounted) -> error::SoapResult<{resp_env}> {{\n    {}::{}({}).await\n}}\n",
            f.module[0],
            f.name,
            args.join(", ")
        ));
    }
    if n == 0 {
        return Err("no helper function of a recognisable shape found".into());
    }
    let calls: String = (1..=n).map(|i| format!("    zv_assert_send(&zv_probe_{i}(reqwest::Client::new(), ZvCounted {{ inner: Default::default(), hits: std::cell::Cell::new(0) }}));\n")).collect();
    // the helper module is private to the emitted file, so the hand-written envelope and the probes
    // are APPENDED to the emitted text (nothing of the emitted text is changed)
    let appended = format!(
        r#"
pub struct ZvCounted {{ pub inner: {req_env}, pub hits: std::cell::Cell<u32> }}
impl yaserde::YaSerialize for ZvCounted {{
    fn serialize<W: std::io::Write>(&self, writer: &mut yaserde::ser::Serializer<W>) -> Result<(), String> {{ self.inner.serialize(writer) }}
    fn serialize_attributes(&self, a: Vec<xml::attribute::OwnedAttribute>, n: xml::namespace::Namespace) -> Result<(Vec<xml::attribute::OwnedAttribute>, xml::namespace::Namespace), String> {{ self.inner.serialize_attributes(a, n) }}
}}
impl restrictions::CheckRestrictions for ZvCounted {{}}
pub fn zv_assert_send<T: Send>(_: &T) {{}}
{probes}
pub fn zv_helper_futures() -> usize {{
    fn is_send<T: Send>() {{}}
    is_send::<ZvCounted>();
{calls}    {n}
}}
"#
    );
    let emitted = format!("{text}\n{appended}");
    Ok(BatchCase { id: "helper".into(), emitted, driver: Some("pub fn run(out: &mut zvp::Out) { let n = zg::zv_helper_futures(); out.emit(\"helper\", &n.to_string()); }".into()) })
}
