//! C16 (fault enumeration): one POST per call; 4xx/5xx, unparsable replies and transport failures
//! are errors, never values. Every generated client shape x credentials x scripted server
//! behaviour, against a loopback listener inside the driver binary.

use super::c05::{static_check, Plan};
use super::common::*;
use super::wsdlgen::{wsdl_with, OpSpec};
use crate::batch::{run_batch, BatchCase};
use crate::report::{Report, Violation};
use crate::wire::print_instance;
use serde_json::json;
use std::collections::BTreeMap;

const STATUSES: [u16; 9] = [200, 201, 204, 400, 401, 403, 404, 500, 503];
const BODIES: [&str; 5] = ["exact", "other-prefixes", "empty", "non-xml", "truncated"];
const TRANSPORT: [&str; 4] = ["refused", "closed-before-headers", "closed-after-headers", "closed-mid-body"];
const CREDS: [(&str, &str, &str); 6] = [
    ("absent", "", ""),
    ("simple", "u", "p"),
    ("unicode-colon-blank", "\u{fc}:ser", "p@ss word"),
    ("empty-user", "", "token-only"),
    ("empty-password", "u", ""),
    ("both-empty", "", ""),
];

fn b64(data: &[u8]) -> String {
    const T: &[u8; 64] = b"ABCDEFGHIJKLMNOPQRSTUVWXYZabcdefghijklmnopqrstuvwxyz0123456789+/";
    let mut o = String::new();
    for ch in data.chunks(3) {
        let b = [ch[0], *ch.get(1).unwrap_or(&0), *ch.get(2).unwrap_or(&0)];
        let n = ((b[0] as u32) << 16) | ((b[1] as u32) << 8) | b[2] as u32;
        o.push(T[(n >> 18) as usize & 63] as char);
        o.push(T[(n >> 12) as usize & 63] as char);
        o.push(if ch.len() > 1 { T[(n >> 6) as usize & 63] as char } else { '=' });
        o.push(if ch.len() > 2 { T[n as usize & 63] as char } else { '=' });
    }
    o
}

/// free-standing functions post to the soapAction URL, which is fixed at generation time: those
/// shapes get a soapAction on a fixed loopback port that the driver listens on
const FREE_FN_PORTS: [u16; 2] = [42817, 42818];

fn shapes() -> Vec<(String, OpSpec)> {
    vec![
        ("in+out".into(), OpSpec::simple("GetThing")),
        ("in+out+headers".into(), OpSpec { in_headers: 1, out_headers: 1, ..OpSpec::simple("GetThing") }),
        ("one-way".into(), OpSpec { output: false, ..OpSpec::simple("GetThing") }),
        ("one-way+header".into(), OpSpec { output: false, in_headers: 1, ..OpSpec::simple("GetThing") }),
        ("free-fn in+out".into(), OpSpec::simple("GetThing")),
        ("free-fn one-way".into(), OpSpec { output: false, ..OpSpec::simple("GetThing") }),
    ]
}

fn driver(plan: &Plan, free_fn_port: Option<u16>) -> Option<String> {
    let op = plan.ops.first()?;
    let svc = plan.service_type.as_ref()?;
    let m = op.method.as_ref()?;
    let free_fn = op.free_fn.clone();
    if free_fn_port.is_some() && free_fn.is_none() {
        return None;
    }
    let (rt, re) = (op.req_type.as_ref()?, op.req_expr.as_ref()?);
    let mut d = String::new();
    d.push_str(&format!("fn mk_req() -> {rt} {{ {re} }}\n"));
    let has_out = op.resp_type.is_some();
    if let (Some(t), Some(e)) = (&op.resp_type, &op.resp_expr) {
        d.push_str(&format!("fn mk_resp() -> {t} {{ {e} }}\n"));
    }
    let canned = op.resp_expected.as_ref().map(|x| print_instance(x, 0)).unwrap_or_default();
    d.push_str("pub fn run(out: &mut zvp::Out) {\n    let rt = zvp::runtime();\n    let req_ser = zvp::ser(&mk_req());\n    out.emit(\"reqser\", &req_ser);\n");
    if has_out {
        d.push_str(&format!("    let exact = zvp::ser(&mk_resp()).strip_prefix(\"Ok:\").unwrap_or(\"\").to_string();\n    let expect_dbg = format!(\"{{:?}}\", mk_resp());\n    let canned = {canned:?}.to_string();\n"));
    } else {
        d.push_str("    let exact = String::from(\"<ok/>\");\n    let expect_dbg = String::from(\"()\");\n    let canned = String::from(\"<x:ok xmlns:x='urn:x'/>\");\n");
    }
    d.push_str("    let creds: Vec<(&str, Option<(String, String)>)> = vec![");
    for (l, u, p) in CREDS {
        if l == "absent" {
            d.push_str("(\"absent\", None), ");
        } else {
            d.push_str(&format!("({l:?}, Some(({u:?}.to_string(), {p:?}.to_string()))), "));
        }
    }
    d.push_str("];\n");
    d.push_str(&format!("    let statuses: [u16; {}] = {:?};\n    let bodies = {:?};\n    let transport = {:?};\n", STATUSES.len(), STATUSES, BODIES, TRANSPORT));
    d.push_str(
        r#"    for (cl, cred) in &creds {
        let mut rows: Vec<(String, Option<zvp::Reply>)> = vec![];
        for s in statuses {
            for b in bodies {
                let body = match b { "exact" => exact.clone(), "other-prefixes" => canned.clone(), "empty" => String::new(), "non-xml" => "this is not xml at all".to_string(), _ => exact[..exact.len() / 2].to_string() };
                let body = if s == 500 && b == "exact" { "<soapenv:Envelope xmlns:soapenv=\"http://schemas.xmlsoap.org/soap/envelope/\"><soapenv:Body><soapenv:Fault><faultcode>soapenv:Server</faultcode><faultstring>boom</faultstring></soapenv:Fault></soapenv:Body></soapenv:Envelope>".to_string() } else { body };
                rows.push((format!("{s}/{b}"), Some(zvp::Reply::Http(s, body))));
            }
        }
        for t in transport {
            let r = match t { "refused" => None, "closed-before-headers" => Some(zvp::Reply::CloseBeforeHeaders), "closed-after-headers" => Some(zvp::Reply::CloseAfterHeaders), _ => Some(zvp::Reply::CloseMidBody(200, exact.clone())) };
            rows.push((format!("transport/{t}"), r));
        }
        for (label, reply) in rows {
"#,
    );
    match free_fn_port {
        None => {
            d.push_str(
                r#"            let (server, url) = match reply {
                Some(r) => { let s = zvp::serve(vec![r]); let u = s.url("/zv/endpoint?x=1"); (Some(s), u) }
                None => (None, format!("http://127.0.0.1:{}/zv/endpoint?x=1", zvp::dead_port())),
            };
"#,
            );
            d.push_str(&format!("            let mut svc = {svc}::new(cred.clone());\n            svc.location = url;\n            let fut = async move {{ svc.{m}(mk_req()).await }};\n            let res = rt.block_on(fut);\n"));
        }
        Some(port) => {
            let ff = free_fn.unwrap();
            d.push_str(&format!(
                "            let server = match reply {{ Some(r) => match zvp::serve_on({port}, vec![r]) {{ Some(s) => Some(s), None => {{ out.emit(\"bind-failed\", \"{port}\"); return; }} }}, None => None }};\n            let res = rt.block_on({ff}(mk_req(), cred.clone()));\n"
            ));
        }
    }
    d.push_str(
        r#"            let (class, detail) = match &res { Ok(v) => ("ok", format!("{:?}", v)), Err(e) => ("err", format!("{e}")) };
            let matches = if class == "ok" { (detail == expect_dbg).to_string() } else { String::new() };
            // give the listener a moment to log a request that was cut short
            std::thread::sleep(std::time::Duration::from_millis(2));
            let (conns, reqs) = match &server { Some(s) => (s.connections(), s.requests()), None => (0, vec![]) };
            let server = server;
            let first = reqs.first().cloned().unwrap_or_default();
            drop(server);
            out.emit_kv("x", &[("cred", cl.to_string()), ("row", label.clone()), ("class", class.to_string()), ("value_matches", matches), ("detail", detail.chars().take(160).collect()), ("connections", conns.to_string()), ("requests", reqs.len().to_string()), ("method", first.method.clone()), ("target", first.target.clone()), ("auth", first.header("authorization").unwrap_or_default()), ("body_is_request", (format!("Ok:{}", first.body) == req_ser).to_string())]);
        }
    }
}
"#,
    );
    Some(d)
}

pub fn check(tier: &str) -> i32 {
    let mut rep = Report::new("C16", tier, "fault_enumeration");
    let mut agg = Agg::new();
    let sh = shapes();
    let mut free_i = 0;
    let mut ports: Vec<Option<u16>> = vec![];
    let states: Vec<State> = sh
        .iter()
        .map(|(l, o)| {
            let mut set = wsdl_with(&[o.clone()], "ThingService", "http://127.0.0.1:9/thing");
            if l.starts_with("free-fn") {
                let port = FREE_FN_PORTS[free_i % FREE_FN_PORTS.len()];
                free_i += 1;
                set.wsdl.as_mut().unwrap().b_ops[0].action = Some(format!("http://127.0.0.1:{port}/zv/endpoint?x=1"));
                ports.push(Some(port));
            } else {
                ports.push(None);
            }
            State { label: format!("client shape {l}"), depth: 1, set }
        })
        .collect();
    let ran = run_states(&states);
    let mut cases = vec![];
    let mut idx = vec![];
    for (i, (st, r)) in states.iter().zip(ran.iter()).enumerate() {
        if let Some(v) = judge_run("C16", "exchanges", st, r, "shape") {
            agg.add(v);
            continue;
        }
        let ex = r.extract.as_ref().unwrap().as_ref().unwrap();
        let mut local = Agg::new();
        let plan = static_check("C16", st, ex, &st.set, &mut local);
        match driver(&plan, ports[i]) {
            Some(d) => {
                cases.push(BatchCase { id: format!("s{i}"), emitted: r.outcome.text().unwrap().to_string(), driver: Some(d) });
                idx.push(i);
            }
            None => agg.add(Violation::new("C16", "client.surface", "exchanges").ctx("shape", &sh[i].0).exp("a service struct with a method taking the request envelope (C05)").act("not found").depth(1).case(case_json(st))),
        }
    }
    let res = run_batch("c16", &cases, 120_000);
    let mut exchanges = 0u64;
    let mut distinct: std::collections::BTreeSet<String> = Default::default();
    for (k, c) in cases.iter().enumerate() {
        let i = idx[k];
        let st = &states[i];
        let shape = &sh[i].0;
        let one_way = shape.contains("one-way");
        let mk = |clause: &str, cred: &str, row: &str| {
            let (status, body) = row.split_once('/').unwrap_or((row, ""));
            let status_class = if status == "transport" { "transport".to_string() } else { format!("{}xx", &status[..1]) };
            Violation::new("C16", clause, "exchanges").ctx("shape", shape).ctx("credentials", cred).ctx("status_class", status_class).ctx("reply_body", body).depth(1).case(json!({"state": st.label, "files": st.set.print(), "row": row, "credentials": cred}))
        };
        if let Some(ds) = res.compile_errors.get(&c.id) {
            agg.add(mk("out.compile", "-", "-/-").exp("client + exchange driver compile").act(format!("{} | {}", ds[0].message, ds[0].snippet)));
            continue;
        }
        if let Some(f) = res.run_failures.get(&c.id) {
            agg.add(mk("run.failure", "-", "-/-").exp("driver runs to completion").act(f));
        }
        for l in res.lines.get(&c.id).map(|v| v.as_slice()).unwrap_or(&[]) {
            if l["k"] == "bind-failed" {
                rep.set(&format!("no_verdict_{}", shape.replace(' ', "_")), json!(format!("fixed port {} could not be bound", l["v"])));
            }
            if l["k"] != "x" {
                continue;
            }
            exchanges += 1;
            let g = |k: &str| l[k].as_str().unwrap_or("").to_string();
            let (cred, row, class) = (g("cred"), g("row"), g("class"));
            distinct.insert(format!("{shape}|{cred}|{row}"));
            let (status, body) = row.split_once('/').unwrap_or((&row, ""));
            let conns: u32 = g("connections").parse().unwrap_or(99);
            let nreq: u32 = g("requests").parse().unwrap_or(99);
            // one request per call
            let expect_conns = if row == "transport/refused" { 0 } else { 1 };
            if conns != expect_conns || (expect_conns == 1 && nreq != 1) {
                agg.add(mk("http.count", &cred, &row).exp(format!("{expect_conns} connection / request")).act(format!("{conns} connection(s), {nreq} request(s)")));
            }
            if expect_conns == 1 && nreq >= 1 {
                if g("method") != "POST" || g("target") != "/zv/endpoint?x=1" {
                    agg.add(mk("http.request", &cred, &row).exp("POST /zv/endpoint?x=1").act(format!("{} {}", g("method"), g("target"))));
                }
                if g("body_is_request") != "true" {
                    agg.add(mk("http.body", &cred, &row).exp("the body is the XML serialization of the request envelope").act("differs"));
                }
                let expect_auth = CREDS.iter().find(|c| c.0 == cred).map(|c| if c.0 == "absent" { String::new() } else { format!("Basic {}", b64(format!("{}:{}", c.1, c.2).as_bytes())) }).unwrap_or_default();
                if g("auth") != expect_auth {
                    agg.add(mk("http.auth", &cred, &row).exp(if expect_auth.is_empty() { "no Authorization header".to_string() } else { expect_auth }).act(g("auth")));
                }
            }
            // result
            let status_n: u16 = status.parse().unwrap_or(0);
            let success_status = (200..300).contains(&status_n);
            // a 204 reply has no body by definition (HTTP): the scripted bytes are never delivered
            let body_is_envelope = (body == "exact" || body == "other-prefixes") && status_n != 204;
            let expect_ok = if status == "transport" { false } else if one_way { success_status } else { success_status && body_is_envelope };
            if expect_ok && class != "ok" {
                agg.add(mk("http.result", &cred, &row).ctx("expected_result", "ok").exp("Ok(response)").act(format!("Err: {}", g("detail"))));
            } else if !expect_ok && class == "ok" {
                agg.add(mk("http.result", &cred, &row).ctx("expected_result", "err").exp("an error for a failed exchange").act(format!("Ok: {}", g("detail"))));
            } else if expect_ok && !one_way && g("value_matches") != "true" {
                agg.add(mk("http.result", &cred, &row).ctx("expected_result", "ok-value").exp("the deserialized response equals the scripted envelope").act(g("detail")));
            }
            if exchanges % 97 == 1 {
                rep.sample(json!({"shape": shape, "credentials": cred, "row": row, "result": class, "connections": conns, "authorization": g("auth")}));
            }
        }
    }
    agg.flush(&mut rep);
    rep.set("evaluations", json!(exchanges));
    rep.set("distinct_nontrivial", json!(distinct.len()));
    rep.set("rule", json!("complete product: 6 client shapes (service methods with/without output and with/without header; free-standing soapAction functions with/without output, listening on a fixed loopback port) x 6 credential settings (absent; u:p; non-ASCII user with a colon, password with blank and @; empty user; empty password; both empty) x (9 statuses x 5 reply bodies {exact envelope, envelope in other prefixes, empty, non-XML, truncated; 500 carries a SOAP fault} + 4 transport faults {connection refused, closed before headers, closed after headers, closed mid-body}); each evaluation is one real call of the generated client method against a loopback listener; all are distinct and non-trivial"));
    rep.set("exhaustive", json!(true));
    rep.set("batch", json!({"packages": res.packages, "cache_hits": res.cache_hits, "build_s": res.build_secs, "run_s": res.run_secs}));
    rep.assume("3xx replies are outside the claim (as in the property); reqwest 0.12 with rustls as in /repo/Cargo.lock; one listener per call, so 'one request per call' is the listener's connection and request count");
    rep.assume("free-standing soapAction functions post to the soapAction URL, fixed at generation time: their states use a soapAction on a fixed loopback port (42817/42818) that the driver binds; if the port cannot be bound the driver reports it and that shape yields no verdict");
    let _ = tier;
    let _: BTreeMap<u8, u8> = BTreeMap::new();
    rep.finish()
}
