//! WSDL state generator shared by C01, C05, C07, C16, C18: productions on the WSDL seed.

use super::common::State;
use crate::schema::*;
use crate::seeds::*;

pub const NS_T: &str = "http://zv.example/types";

#[derive(Clone, Debug)]
pub struct OpSpec {
    pub name: String,
    pub output: bool,
    pub in_headers: usize,
    pub out_headers: usize,
    pub explicit_parts: bool,
    pub action: bool,
    /// message part named like its element (true) or "parameters" (false)
    pub part_named_as_element: bool,
    /// body/header elements live in an imported schema file (namespace NS_T) instead of the WSDL's
    pub imported_ns: bool,
    /// header parts bound from the same message while soap:body has NO parts attribute
    pub headers_without_parts: bool,
    /// odd-numbered header elements live in the imported namespace, even-numbered ones in the WSDL's
    pub mixed_header_ns: bool,
    /// the header part names CONTAIN the body part name (body `payload`, headers `payloadHeader<i>`)
    pub overlapping_part_names: bool,
    /// the other namespace declares global elements with the SAME local names as the ones this
    /// operation binds (they are never referenced)
    pub shadow_elements: bool,
    /// header part names that sort BEFORE the body part name (`audit0` < `parameters`)
    pub early_header_names: bool,
    /// the header parts live in a message of their own (`<Op>Headers`, `<Op>RespHeaders`), as many
    /// real WSDLs do: soap:header message= names another message than the operation's input/output
    pub separate_header_message: bool,
    /// (with `separate_header_message`) the header part carries the SAME name as the body part,
    /// each in its own message
    pub header_part_named_like_body_part: bool,
    /// header part names in an order that is NOT alphabetical (`trace`, `zone`, `auth`), one of them
    /// sorting before the body part's name
    pub unsorted_header_names: bool,
}

impl OpSpec {
    pub fn simple(name: &str) -> OpSpec {
        OpSpec { name: name.into(), output: true, in_headers: 0, out_headers: 0, explicit_parts: false, action: true, part_named_as_element: false, imported_ns: false, headers_without_parts: false, mixed_header_ns: false, overlapping_part_names: false, shadow_elements: false, early_header_names: false, separate_header_message: false, header_part_named_like_body_part: false, unsorted_header_names: false }
    }
    pub fn label(&self) -> String {
        format!(
            "op {} {}{}{}{}{}{}",
            self.name,
            if self.output { "in+out" } else { "in-only" },
            if self.in_headers + self.out_headers > 0 { format!(" headers={}/{}", self.in_headers, self.out_headers) } else { String::new() },
            if self.explicit_parts { " parts=explicit" } else { "" },
            if self.action { " soapAction" } else { "" },
            if self.part_named_as_element { " part=element-name" } else { "" },
            if self.imported_ns { " imported-ns" } else { "" }
        ) + if self.headers_without_parts { " body-parts-absent" } else { "" }
    }
}

/// a WSDL with exactly the given operations (service name / address given)
pub fn wsdl_with(ops: &[OpSpec], service: &str, address: &str) -> SchemaSet {
    let mut s = w0();
    {
        let w = s.wsdl.as_mut().unwrap();
        w.schema.comps.clear();
        w.messages.clear();
        w.pt_ops.clear();
        w.b_ops.clear();
        w.service = service.into();
        w.address = address.into();
    }
    let any_imported = ops.iter().any(|o| o.imported_ns || o.mixed_header_ns || o.shadow_elements);
    if any_imported {
        let t = XsdFile { name: "types.xsd".into(), tns: NS_T.into(), prefixes: vec![("t".into(), NS_T.into())], default_ns: None, imports: vec![], comps: vec![] };
        s.files.push(t);
        let w = s.wsdl.as_mut().unwrap();
        w.prefixes.push(("t".into(), NS_T.into()));
        w.schema.imports.push(Import { ns: NS_T.into(), loc: Some("types.xsd".into()) });
    }
    for o in ops {
        add_op(&mut s, o);
    }
    s
}

fn add_op(s: &mut SchemaSet, o: &OpSpec) {
    let tns = s.wsdl.as_ref().unwrap().tns.clone();
    let ens = if o.imported_ns { NS_T.to_string() } else { tns.clone() };
    let name = &o.name;
    let mut new_elems: Vec<Comp> = vec![];
    let req_el = name.to_string();
    let resp_el = format!("{name}Response");
    new_elems.push(anon_element(&req_el, vec![el("Arg", TypeRef::b("string")), el_occ("Count", TypeRef::b("int"), 0, Max::N(1))]));
    let pname = |el: &str| if o.part_named_as_element { el.to_string() } else if o.overlapping_part_names { "payload".to_string() } else { "parameters".to_string() };
    let mut in_parts = vec![Part { name: pname(&req_el), element: QName::new(&ens, &req_el) }];
    let mut in_h = vec![];
    let mut in_header_parts: Vec<Part> = vec![];
    let mut out_header_parts: Vec<Part> = vec![];
    let mut other_ns_elems: Vec<Comp> = vec![];
    for i in 0..o.in_headers {
        let hn = format!("{name}Hdr{i}");
        let in_other = o.mixed_header_ns && i % 2 == 1;
        let hns = if in_other { if o.imported_ns { tns.clone() } else { NS_T.to_string() } } else { ens.clone() };
        if in_other {
            other_ns_elems.push(anon_element(&hn, vec![el("Token", TypeRef::b("string"))]));
        } else {
            new_elems.push(anon_element(&hn, vec![el("Token", TypeRef::b("string"))]));
        }
        let pn = if o.unsorted_header_names { ["trace", "zone", "auth"][i % 3].to_string() } else if o.header_part_named_like_body_part && i == 0 { pname(&req_el) } else if o.part_named_as_element { hn.clone() } else if o.overlapping_part_names { format!("payloadHeader{i}") } else if o.early_header_names { format!("audit{i}") } else { format!("hdr{i}") };
        if o.separate_header_message {
            in_header_parts.push(Part { name: pn.clone(), element: QName::new(&hns, &hn) });
            in_h.push((format!("{name}Headers"), pn));
        } else {
            in_parts.push(Part { name: pn.clone(), element: QName::new(&hns, &hn) });
            in_h.push((format!("{name}In"), pn));
        }
    }
    let mut out = None;
    let mut out_msg = None;
    let mut out_parts_v = vec![];
    if o.output {
        new_elems.push(anon_element(&resp_el, vec![el("Result", TypeRef::b("string"))]));
        out_parts_v.push(Part { name: pname(&resp_el), element: QName::new(&ens, &resp_el) });
        let mut out_h = vec![];
        for i in 0..o.out_headers {
            let hn = format!("{name}RespHdr{i}");
            new_elems.push(anon_element(&hn, vec![el("Info", TypeRef::b("string"))]));
            let pn = if o.unsorted_header_names { ["trace", "zone", "auth"][i % 3].to_string() } else if o.header_part_named_like_body_part && i == 0 { pname(&resp_el) } else if o.part_named_as_element { hn.clone() } else if o.overlapping_part_names { format!("payloadHeader{i}") } else if o.early_header_names { format!("audit{i}") } else { format!("rhdr{i}") };
            if o.separate_header_message {
                out_header_parts.push(Part { name: pn.clone(), element: QName::new(&ens, &hn) });
                out_h.push((format!("{name}RespHeaders"), pn));
            } else {
                out_parts_v.push(Part { name: pn.clone(), element: QName::new(&ens, &hn) });
                out_h.push((format!("{name}Out"), pn));
            }
        }
        out_msg = Some(format!("{name}Out"));
        out = Some(BIo { headers: out_h, parts: if o.explicit_parts || (o.out_headers > 0 && !o.headers_without_parts) { Some(pname(&resp_el)) } else { None } });
    }
    if o.imported_ns {
        s.files.iter_mut().find(|f| f.name == "types.xsd").unwrap().comps.extend(new_elems);
        s.wsdl.as_mut().unwrap().schema.comps.extend(other_ns_elems);
    } else {
        s.wsdl.as_mut().unwrap().schema.comps.extend(new_elems);
        if !other_ns_elems.is_empty() {
            s.files.iter_mut().find(|f| f.name == "types.xsd").unwrap().comps.extend(other_ns_elems);
        }
    }
    if o.shadow_elements {
        // same local names, other namespace, different content
        let mut shadows = vec![anon_element(&req_el, vec![el("ShadowArg", TypeRef::b("long"))]), anon_element(&resp_el, vec![el("ShadowResult", TypeRef::b("long"))])];
        for i in 0..o.in_headers {
            shadows.push(anon_element(&format!("{name}Hdr{i}"), vec![el("ShadowToken", TypeRef::b("long"))]));
        }
        if o.imported_ns {
            s.wsdl.as_mut().unwrap().schema.comps.extend(shadows);
        } else {
            s.files.iter_mut().find(|f| f.name == "types.xsd").unwrap().comps.extend(shadows);
        }
    }
    let w = s.wsdl.as_mut().unwrap();
    w.messages.push(Message { name: format!("{name}In"), parts: in_parts });
    if o.output {
        w.messages.push(Message { name: format!("{name}Out"), parts: out_parts_v });
    }
    if !in_header_parts.is_empty() {
        w.messages.push(Message { name: format!("{name}Headers"), parts: in_header_parts });
    }
    if !out_header_parts.is_empty() {
        w.messages.push(Message { name: format!("{name}RespHeaders"), parts: out_header_parts });
    }
    w.pt_ops.push(PtOp { name: name.clone(), input: format!("{name}In"), output: out_msg });
    w.b_ops.push(BOp {
        name: name.clone(),
        action: if o.action { Some(format!("{tns}/{name}")) } else { None },
        input: BIo { headers: in_h, parts: if o.explicit_parts || (o.in_headers > 0 && !o.headers_without_parts) { Some(pname(&req_el)) } else { None } },
        output: out,
    });
}

pub const OP_NAME_STYLES: [(&str, &str); 6] = [("pascal", "GetThing"), ("camel", "getThing"), ("snake", "get_thing"), ("kebab", "get-thing"), ("upper", "GET_THING"), ("digit", "GetThing2")];

/// depth-1 WSDL states: one production on the single-operation seed
pub fn wsdl_states(depth2: bool) -> Vec<State> {
    let base = OpSpec::simple("GetThing");
    let svc = "ThingService";
    let addr = "http://127.0.0.1:9/thing";
    let mut specs: Vec<(String, Vec<OpSpec>, String, String)> = vec![("seed".into(), vec![base.clone()], svc.into(), addr.into())];
    let mut prods: Vec<(String, Box<dyn Fn(&mut OpSpec)>)> = vec![];
    for (st, n) in OP_NAME_STYLES.iter().skip(1) {
        let n = n.to_string();
        prods.push((format!("operation-name-style={st}"), Box::new(move |o: &mut OpSpec| o.name = n.clone())));
    }
    prods.push(("input-only".into(), Box::new(|o: &mut OpSpec| o.output = false)));
    for h in 1..=3usize {
        prods.push((format!("input-headers={h}"), Box::new(move |o: &mut OpSpec| o.in_headers = h)));
        prods.push((format!("output-headers={h}"), Box::new(move |o: &mut OpSpec| o.out_headers = h)));
    }
    prods.push(("parts-explicit".into(), Box::new(|o: &mut OpSpec| o.explicit_parts = true)));
    prods.push(("input-header-bound-body-parts-absent".into(), Box::new(|o: &mut OpSpec| {
        o.in_headers = 1;
        o.headers_without_parts = true;
    })));
    prods.push(("three-input-headers-bound-body-parts-absent".into(), Box::new(|o: &mut OpSpec| {
        o.in_headers = 3;
        o.headers_without_parts = true;
    })));
    prods.push(("input-headers-in-two-namespaces".into(), Box::new(|o: &mut OpSpec| {
        o.in_headers = 3;
        o.mixed_header_ns = true;
    })));
    prods.push(("header-part-names-contain-body-part-name-parts-absent".into(), Box::new(|o: &mut OpSpec| {
        o.in_headers = 1;
        o.out_headers = 1;
        o.headers_without_parts = true;
        o.overlapping_part_names = true;
    })));
    prods.push(("same-element-names-in-the-imported-namespace".into(), Box::new(|o: &mut OpSpec| {
        o.in_headers = 1;
        o.shadow_elements = true;
    })));
    prods.push(("header-part-names-sort-before-the-body-part-parts-absent".into(), Box::new(|o: &mut OpSpec| {
        o.in_headers = 1;
        o.out_headers = 2;
        o.headers_without_parts = true;
        o.early_header_names = true;
    })));
    prods.push(("three-headers-bound-in-non-alphabetical-order-parts-absent".into(), Box::new(|o: &mut OpSpec| {
        o.in_headers = 3;
        o.out_headers = 2;
        o.headers_without_parts = true;
        o.unsorted_header_names = true;
    })));
    prods.push(("headers-in-a-message-of-their-own".into(), Box::new(|o: &mut OpSpec| {
        o.in_headers = 2;
        o.out_headers = 1;
        o.separate_header_message = true;
        o.headers_without_parts = true;
    })));
    prods.push(("header-in-a-message-of-its-own-part-named-like-the-body-part".into(), Box::new(|o: &mut OpSpec| {
        o.in_headers = 1;
        o.out_headers = 1;
        o.separate_header_message = true;
        o.header_part_named_like_body_part = true;
        o.headers_without_parts = true;
    })));
    prods.push(("headers-in-a-message-of-their-own-parts-explicit".into(), Box::new(|o: &mut OpSpec| {
        o.in_headers = 1;
        o.separate_header_message = true;
    })));
    prods.push(("output-headers-bound-body-parts-absent".into(), Box::new(|o: &mut OpSpec| {
        o.out_headers = 2;
        o.headers_without_parts = true;
    })));
    prods.push(("no-soap-action".into(), Box::new(|o: &mut OpSpec| o.action = false)));
    prods.push(("part-named-as-element".into(), Box::new(|o: &mut OpSpec| o.part_named_as_element = true)));
    prods.push(("elements-in-imported-namespace".into(), Box::new(|o: &mut OpSpec| o.imported_ns = true)));
    for (l, f) in &prods {
        let mut o = base.clone();
        f(&mut o);
        specs.push((l.clone(), vec![o], svc.into(), addr.into()));
    }
    // more operations
    specs.push(("operations=2".into(), vec![base.clone(), OpSpec::simple("PutThing")], svc.into(), addr.into()));
    specs.push(("operations=3".into(), vec![base.clone(), OpSpec::simple("PutThing"), OpSpec { output: false, ..OpSpec::simple("DropThing") }], svc.into(), addr.into()));
    // the complete shape product {input only, input+output} x {0, 2 input headers} x {0, 1 output
    // headers}: each shape alone and all of them in one service
    {
        let mut all = vec![];
        for output in [false, true] {
            for in_headers in [0usize, 2] {
                for out_headers in [0usize, 1] {
                    if !output && out_headers > 0 {
                        continue;
                    }
                    let name = format!("Shape{}{}{}", if output { "Io" } else { "OneWay" }, in_headers, out_headers);
                    let o = OpSpec { output, in_headers, out_headers, ..OpSpec::simple(&name) };
                    specs.push((format!("shape output={output} input-headers={in_headers} output-headers={out_headers}"), vec![o.clone()], svc.into(), addr.into()));
                    all.push(o);
                }
            }
        }
        specs.push(("all-shapes-in-one-service".into(), all, svc.into(), addr.into()));
    }
    // service name styles and addresses
    for (st, n) in [("camel", "thingService"), ("snake", "thing_service"), ("kebab", "thing-service"), ("upper", "THING_SERVICE")] {
        specs.push((format!("service-name-style={st}"), vec![base.clone()], n.into(), addr.into()));
    }
    for (l, a) in [("address-with-path-and-query", "http://127.0.0.1:9/a/b?x=1&y=2"), ("address-with-port", "http://localhost:8080/svc"), ("address-https", "https://example.invalid/svc"), ("address-path-ending-in-a-slash", "http://127.0.0.1:9/shop/orders/")] {
        specs.push((l.into(), vec![base.clone()], svc.into(), a.into()));
    }
    let mut out: Vec<State> = specs.iter().map(|(l, ops, s, a)| State { label: format!("wsdl {l}"), depth: if l == "seed" { 0 } else { 1 }, set: wsdl_with(ops, s, a) }).collect();
    // two operations sharing ONE input message; an operation whose output message IS its input message
    {
        let mut set = wsdl_with(&[base.clone(), OpSpec::simple("PutThing")], svc, addr);
        {
            let w = set.wsdl.as_mut().unwrap();
            let shared = w.pt_ops[0].input.clone();
            w.pt_ops[1].input = shared;
        }
        out.push(State { label: "wsdl two-operations-share-one-input-message".into(), depth: 1, set });
        let mut set = wsdl_with(&[base.clone()], svc, addr);
        {
            let w = set.wsdl.as_mut().unwrap();
            let same = w.pt_ops[0].input.clone();
            w.pt_ops[0].output = Some(same);
        }
        out.push(State { label: "wsdl output-message-is-the-input-message".into(), depth: 1, set });
    }
    // the inline schema has a target namespace of its own (definitions targetNamespace=…/wsvc,
    // schema targetNamespace=…/data): the elements live in the SCHEMA's namespace
    {
        const NS_D: &str = "http://zv.example/data";
        let mut set = wsdl_with(&[OpSpec { in_headers: 1, out_headers: 1, ..base.clone() }, OpSpec { output: false, ..OpSpec::simple("DropThing") }], svc, addr);
        {
            let w = set.wsdl.as_mut().unwrap();
            let old = w.tns.clone();
            w.schema.tns = NS_D.into();
            w.schema.prefixes.push(("d".into(), NS_D.into()));
            w.prefixes.push(("d".into(), NS_D.into()));
            for m in w.messages.iter_mut() {
                for p in m.parts.iter_mut() {
                    if p.element.ns == old {
                        p.element.ns = NS_D.into();
                    }
                }
            }
        }
        out.push(State { label: "wsdl inline-schema-with-its-own-target-namespace".into(), depth: 1, set });
    }
    // an operation called like the constructor of the client struct
    for n in ["New", "new"] {
        out.push(State { label: format!("wsdl operation-named-{n}"), depth: 1, set: wsdl_with(&[OpSpec { in_headers: 1, ..OpSpec::simple(n) }, OpSpec::simple("GetThing")], svc, addr) });
    }
    // two header messages whose parts carry ONE name (`header`), both bound by one operation
    {
        let mut set = wsdl_with(&[OpSpec { in_headers: 2, separate_header_message: true, headers_without_parts: true, ..base.clone() }], svc, addr);
        {
            let w = set.wsdl.as_mut().unwrap();
            // split the header message in two, one part each, both parts called `header`
            let hm = w.messages.iter().position(|m| m.name == "GetThingHeaders").unwrap();
            let parts = w.messages[hm].parts.clone();
            w.messages[hm].parts = vec![Part { name: "header".into(), element: parts[0].element.clone() }];
            w.messages.push(Message { name: "GetThingMoreHeaders".into(), parts: vec![Part { name: "header".into(), element: parts[1].element.clone() }] });
            w.b_ops[0].input.headers = vec![("GetThingHeaders".into(), "header".into()), ("GetThingMoreHeaders".into(), "header".into())];
        }
        out.push(State { label: "wsdl two-header-messages-with-one-part-name".into(), depth: 1, set });
    }
    // soapAction forms: another scheme than the address, an opaque URN
    for (l, a) in [("https", "https://secure.zv.example/act/GetThing"), ("urn", "urn:zv:act:GetThing")] {
        let mut set = wsdl_with(&[OpSpec { in_headers: 1, ..base.clone() }, OpSpec { output: false, in_headers: 1, ..OpSpec::simple("DropThing") }], svc, addr);
        for (i, b) in set.wsdl.as_mut().unwrap().b_ops.iter_mut().enumerate() {
            b.action = Some(format!("{a}{i}"));
        }
        out.push(State { label: format!("wsdl soap-action-form={l}"), depth: 1, set });
    }
    // the WSDL elements in the default namespace, the inline schema under a default namespace of its own
    {
        let mut set = wsdl_with(&[OpSpec { in_headers: 1, out_headers: 1, ..base.clone() }, OpSpec { output: false, ..OpSpec::simple("DropThing") }], svc, addr);
        set.wsdl.as_mut().unwrap().default_ns_style = true;
        out.push(State { label: "wsdl default-namespace-spelling".into(), depth: 1, set });
    }
    if depth2 {
        for (i, (la, fa)) in prods.iter().enumerate() {
            for (lb, fb) in prods.iter().skip(i + 1) {
                let mut o = base.clone();
                fa(&mut o);
                fb(&mut o);
                out.push(State { label: format!("wsdl {la} ; {lb}"), depth: 2, set: wsdl_with(&[o], svc, addr) });
            }
        }
        // second operation with a production
        for (l, f) in &prods {
            let mut o = OpSpec::simple("PutThing");
            f(&mut o);
            o.name = o.name.replace("Get", "Put").replace("get", "put").replace("GET", "PUT");
            {
                out.push(State { label: format!("wsdl operations=2 ; second:{l}"), depth: 2, set: wsdl_with(&[base.clone(), o], svc, addr) });
            }
        }
    }
    out
}
