//! C10: within one output the assignment namespace URI <-> XML prefix and namespace URI <-> Rust
//! module is a bijection, all components of a namespace live in its single module, and every
//! prefix used by a field is declared with that same URI; for adversarial URI sets, every way of
//! declaring them and every import order.

use super::common::*;
use crate::reference::{compare_api, ApiCheck, RefModel};
use crate::report::{Report, Violation};
use crate::schema::*;
use crate::seeds::*;
use serde_json::json;
use std::collections::{BTreeMap, BTreeSet};

fn uri_alphabet() -> Vec<&'static str> {
    vec![
        "http://zv.example/v1/types",
        "http://zv.example/v2/types",
        "http://zv.example/types",
        "urn:e:types",
        "http://zv.example/typ",
        "http://zv.example/a.b-types",
        "http://zv.example/TYPES",
        "http://zv.example/types/",
        "http://zv.example/1st",
        "http://zv.example/xml",
        "http://zv.example/xmlstuff",
        "http://zv.example/m\u{b2}",
        "http://zv.example/XMLSchema-instance-like",
        "http://zv.example/\u{fc}n\u{ef}",
        "http://zv.example/old/2006",
        "http://zv.example/new/2006",
    ]
}

fn colliding_family(n: usize) -> Vec<String> {
    (0..n).map(|i| format!("http://zv.example/fam{i}/model")).collect()
}

#[derive(Clone, Copy, Debug, PartialEq)]
enum Way {
    /// prefix declared on the start file's root, namespace imported, type referenced from the start file
    RootXmlns,
    /// prefix declared on the referring component only
    NestedXmlns,
    /// imported but never prefix-declared nor referenced by the start file
    TargetOnly,
}

/// start file in `uris[0]`, one imported file per further URI (in the given import order)
fn build(uris: &[String], ways: &[Way], import_order: &[usize]) -> SchemaSet {
    let mut files = vec![];
    let mut start = XsdFile { name: "start.xsd".into(), tns: uris[0].clone(), prefixes: vec![("p0".into(), uris[0].clone())], default_ns: None, imports: vec![], comps: vec![] };
    let mut members = vec![el("Own", TypeRef::n(&uris[0], "T0"))];
    let mut nested = vec![];
    for &i in import_order {
        start.imports.push(Import { ns: uris[i].clone(), loc: Some(format!("f{i}.xsd")) });
    }
    for i in 1..uris.len() {
        match ways[i] {
            Way::RootXmlns => {
                start.prefixes.push((format!("p{i}"), uris[i].clone()));
                members.push(el(&format!("M{i}"), TypeRef::n(&uris[i], &format!("T{i}"))));
            }
            Way::NestedXmlns => {
                nested.push((format!("p{i}"), uris[i].clone()));
                members.push(el(&format!("M{i}"), TypeRef::n(&uris[i], &format!("T{i}"))));
            }
            Way::TargetOnly => {}
        }
        files.push(XsdFile {
            name: format!("f{i}.xsd"),
            tns: uris[i].clone(),
            prefixes: vec![("own".into(), uris[i].clone())],
            default_ns: None,
            imports: vec![],
            comps: vec![complex(&format!("T{i}"), vec![el(&format!("V{i}"), TypeRef::b("string"))]), complex(&format!("U{i}"), vec![el(&format!("Uses{i}"), TypeRef::n(&uris[i], &format!("T{i}")))])],
        });
    }
    start.comps.push(complex("T0", vec![el("V0", TypeRef::b("string"))]));
    start.comps.push(Comp::Complex(ComplexType { name: "Holder".into(), xmlns: nested, seq: Some(Seq::of(members)), ..Default::default() }));
    let mut all = vec![start];
    all.extend(files);
    SchemaSet { files: all, wsdl: None, start: "start.xsd".into(), xs_is_default_namespace: false }
}

fn permutations(v: &[usize]) -> Vec<Vec<usize>> {
    if v.len() <= 1 {
        return vec![v.to_vec()];
    }
    let mut out = vec![];
    for i in 0..v.len() {
        let mut rest = v.to_vec();
        let x = rest.remove(i);
        for mut p in permutations(&rest) {
            p.insert(0, x);
            out.push(p);
        }
    }
    out
}

fn states(tier: &str) -> Vec<(State, BTreeMap<&'static str, String>)> {
    let u = uri_alphabet();
    let mut out = vec![];
    let mut push = |uris: Vec<String>, ways: Vec<Way>, order: Vec<usize>, what: &str| {
        let label = format!("{what}: uris={uris:?} ways={:?} import-order={order:?}", &ways[1..]);
        let mut ctx = BTreeMap::new();
        ctx.insert("uris", what.to_string());
        ctx.insert("ways", ways[1..].iter().map(|w| format!("{w:?}")).collect::<Vec<_>>().join("+"));
        ctx.insert("count", uris.len().to_string());
        let set = build(&uris, &ways, &order);
        out.push((State { label, depth: uris.len() as u32 - 1, set }, ctx));
    };
    // single namespaces
    for a in &u {
        push(vec![a.to_string()], vec![Way::RootXmlns], vec![], "single");
    }
    // all ordered pairs x ways
    for a in &u {
        for b in &u {
            if a == b {
                continue;
            }
            for w in [Way::RootXmlns, Way::NestedXmlns, Way::TargetOnly] {
                push(vec![a.to_string(), b.to_string()], vec![Way::RootXmlns, w], vec![1], "pair");
            }
        }
    }
    // triples over the colliding part of the alphabet (the first 8), all import orders, one way each (quick)
    let collide = &u[..if tier == "quick" { 5 } else { 8 }];
    for a in collide {
        for b in collide {
            for c in collide {
                if a == b || b == c || a == c {
                    continue;
                }
                for order in permutations(&[1, 2]) {
                    let ways_list: Vec<[Way; 2]> = if tier == "quick" { vec![[Way::RootXmlns, Way::NestedXmlns], [Way::NestedXmlns, Way::NestedXmlns], [Way::TargetOnly, Way::TargetOnly]] } else { vec![[Way::RootXmlns, Way::RootXmlns], [Way::RootXmlns, Way::NestedXmlns], [Way::NestedXmlns, Way::TargetOnly], [Way::TargetOnly, Way::RootXmlns], [Way::NestedXmlns, Way::NestedXmlns], [Way::TargetOnly, Way::TargetOnly]] };
                    for ws in ways_list {
                        push(vec![a.to_string(), b.to_string(), c.to_string()], vec![Way::RootXmlns, ws[0], ws[1]], order.clone(), "triple");
                    }
                }
            }
        }
    }
    // families with equal abbreviation: 2..12 members, more than ten colliding
    for n in [2usize, 3, 6, 11, 12] {
        let fam = colliding_family(n);
        let ways: Vec<Way> = (0..n).map(|i| if i % 3 == 2 { Way::NestedXmlns } else { Way::RootXmlns }).collect();
        let order: Vec<usize> = (1..n).collect();
        push(fam.clone(), ways.clone(), order.clone(), "equal-abbreviation-family");
        let rev: Vec<usize> = (1..n).rev().collect();
        push(fam, ways, rev, "equal-abbreviation-family");
    }
    // one target namespace spread over two imported files, a third namespace met in between
    let mut spread: Vec<(State, BTreeMap<&'static str, String>)> = vec![];
    for (order, with_between) in [(0, true), (1, true), (0, false), (1, false)] {
        let x = "http://zv.example/spread/x";
        let y = "http://zv.example/spread/y";
        let z = "http://zv.example/spread/z";
        let mut b = XsdFile { name: "b.xsd".into(), tns: y.into(), prefixes: vec![("own".into(), y.into()), ("z".into(), z.into())], default_ns: None, imports: vec![], comps: vec![complex("YOne", vec![el("V", TypeRef::b("string"))])] };
        let c = XsdFile { name: "c.xsd".into(), tns: z.into(), prefixes: vec![("own".into(), z.into())], default_ns: None, imports: vec![], comps: vec![complex("ZOne", vec![el("V", TypeRef::b("string"))])] };
        if with_between {
            b.imports.push(Import { ns: z.into(), loc: Some("c.xsd".into()) });
            b.comps.push(complex("YUsesZ", vec![el("Zed", TypeRef::n(z, "ZOne"))]));
        }
        let d = XsdFile { name: "d.xsd".into(), tns: y.into(), prefixes: vec![("own".into(), y.into())], default_ns: None, imports: vec![], comps: vec![complex("YTwo", vec![el("V", TypeRef::b("int"))])] };
        let mut start = XsdFile { name: "start.xsd".into(), tns: x.into(), prefixes: vec![("p0".into(), x.into()), ("py".into(), y.into())], default_ns: None, imports: vec![], comps: vec![] };
        let imps = [Import { ns: y.into(), loc: Some("b.xsd".into()) }, Import { ns: y.into(), loc: Some("d.xsd".into()) }];
        if order == 0 {
            start.imports.extend(imps);
        } else {
            start.imports.extend(imps.into_iter().rev());
        }
        start.comps.push(complex("Holder", vec![el("A", TypeRef::n(y, "YOne")), el("B", TypeRef::n(y, "YTwo"))]));
        let mut files = vec![start, b, d];
        if with_between {
            files.push(c);
        }
        let mut ctx = BTreeMap::new();
        ctx.insert("uris", "one-namespace-in-two-files".to_string());
        ctx.insert("ways", format!("order{order}-between{with_between}"));
        ctx.insert("count", "3".to_string());
        spread.push((State { label: format!("one namespace in two imported files, import order {order}, third namespace in between: {with_between}"), depth: 2, set: SchemaSet { files, wsdl: None, start: "start.xsd".into(), xs_is_default_namespace: false } }, ctx));
    }
    // selected 6-sets
    let six: Vec<String> = u[..6].iter().map(|s| s.to_string()).collect();
    push(six.clone(), vec![Way::RootXmlns, Way::RootXmlns, Way::NestedXmlns, Way::TargetOnly, Way::RootXmlns, Way::NestedXmlns], vec![1, 2, 3, 4, 5], "six");
    push(six, vec![Way::RootXmlns, Way::NestedXmlns, Way::RootXmlns, Way::RootXmlns, Way::TargetOnly, Way::RootXmlns], vec![5, 4, 3, 2, 1], "six");
    out.extend(spread);
    out
}

fn is_ncname(s: &str) -> bool {
    let mut c = s.chars();
    match c.next() {
        Some(f) if f.is_alphabetic() || f == '_' => {}
        _ => return false,
    }
    // prefixes beginning with "xml" (any case) are reserved: XML writers refuse or drop them
    c.all(|x| x.is_alphanumeric() || x == '_' || x == '-' || x == '.') && !s.to_ascii_lowercase().starts_with("xml")
}

pub fn check(tier: &str) -> i32 {
    let mut rep = Report::new("C10", tier, "model_checking");
    let mut agg = Agg::new();
    let sts = states(tier);
    let plain: Vec<State> = sts.iter().map(|(s, _)| State { label: s.label.clone(), depth: s.depth, set: s.set.clone() }).collect();
    let ran = run_states(&plain);
    let mut conformant = 0u64;
    let mut compile_cases = vec![];
    for (k, ((st, ctx), r)) in sts.iter().zip(ran.iter()).enumerate() {
        let with = |mut v: Violation| {
            for (a, b) in ctx {
                v = v.ctx(a, b);
            }
            v.depth(st.depth).case(case_json(st))
        };
        if let Some(v) = judge_run("C10", "namespaces", st, r, "namespaces") {
            agg.add(with(v));
            continue;
        }
        let ex = r.extract.as_ref().unwrap().as_ref().unwrap();
        let mut bad = false;
        // prefix -> URIs and URI -> prefixes over every namespaces map of the file
        let mut p2u: BTreeMap<String, BTreeSet<String>> = BTreeMap::new();
        let mut u2p: BTreeMap<String, BTreeSet<String>> = BTreeMap::new();
        for s in &ex.structs {
            for (p, u) in &s.ya.namespaces {
                p2u.entry(p.clone()).or_default().insert(u.clone());
                u2p.entry(u.clone()).or_default().insert(p.clone());
            }
        }
        for (p, us) in &p2u {
            if us.len() > 1 {
                bad = true;
                agg.add(with(Violation::new("C10", "ns.prefix", "namespaces").ctx("aspect", "one-prefix-two-uris").exp("a prefix denotes one namespace in the whole output").act(format!("prefix `{p}` -> {us:?}"))));
            }
            if !is_ncname(p) {
                bad = true;
                agg.add(with(Violation::new("C10", "ns.prefix", "namespaces").ctx("aspect", "not-an-ncname").ctx("why", if p.to_ascii_lowercase().starts_with("xml") { "reserved-xml-prefix" } else { "illegal-characters" }).exp("a prefix is an NCName").act(format!("`{p}`"))));
            }
        }
        for (u, ps) in &u2p {
            if ps.len() > 1 {
                bad = true;
                agg.add(with(Violation::new("C10", "ns.prefix", "namespaces").ctx("aspect", "one-uri-two-prefixes").exp("a namespace has one prefix in the whole output").act(format!("{u} -> {ps:?}"))));
            }
        }
        // module <-> URI through the structs they contain
        let mut m2u: BTreeMap<String, BTreeSet<String>> = BTreeMap::new();
        let mut u2m: BTreeMap<String, BTreeSet<String>> = BTreeMap::new();
        for s in ex.structs.iter().filter(|s| !s.module.is_empty()) {
            if let Some(u) = s.ns_uri() {
                m2u.entry(s.module.join("::")).or_default().insert(u.to_string());
                u2m.entry(u.to_string()).or_default().insert(s.module.join("::"));
            }
        }
        for (m, us) in &m2u {
            if us.len() > 1 {
                bad = true;
                agg.add(with(Violation::new("C10", "ns.module", "namespaces").ctx("aspect", "one-module-two-uris").exp("a module holds the components of one namespace").act(format!("module {m} -> {us:?}"))));
            }
        }
        for (u, ms) in &u2m {
            if ms.len() > 1 {
                bad = true;
                agg.add(with(Violation::new("C10", "ns.module", "namespaces").ctx("aspect", "one-uri-two-modules").exp("a namespace has one module").act(format!("{u} -> {ms:?}"))));
            }
        }
        if !ex.duplicate_items.is_empty() {
            bad = true;
            agg.add(with(Violation::new("C10", "ns.module", "namespaces").ctx("aspect", "duplicate-item").exp("no two items of one name in one module").act(format!("{:?}", ex.duplicate_items))));
        }
        // every component in its namespace's module, every member prefix bound to the declaring namespace
        let model = RefModel::build(&st.set);
        let vs = compare_api(ex, &model, &ApiCheck { property: "C10", scope: "namespaces", depth: st.depth, member_namespaces: true }, None);
        for v in vs {
            if ["api.struct.missing", "api.struct.module", "api.struct.extra", "ns.binding", "api.member.type"].contains(&v.clause.as_str()) {
                bad = true;
                let clause = if v.clause == "ns.binding" || v.clause == "api.member.type" { "ns.binding" } else { "ns.module" };
                agg.add(with(Violation { clause: clause.into(), ..v }.ctx("aspect", "component-placement")));
            }
        }
        if !bad {
            conformant += 1;
        }
        rep.outcome("module_sets", m2u.keys().cloned().collect::<Vec<_>>().join(","));
        rep.sample(json!({"state": st.label, "modules": m2u, "prefixes": p2u}));
        // compile: the colliding families, six-sets and every 7th state
        if ctx["uris"] != "pair" && ctx["uris"] != "triple" || k % 7 == 0 {
            compile_cases.push((k, crate::batch::BatchCase { id: format!("s{k}"), emitted: r.outcome.text().unwrap().to_string(), driver: None }));
        }
    }
    let cases: Vec<crate::batch::BatchCase> = compile_cases.iter().map(|c| c.1.clone()).collect();
    let res = crate::batch::run_batch("c10", &cases, 30_000);
    for (k, c) in &compile_cases {
        if let Some(ds) = res.compile_errors.get(&c.id) {
            let (st, ctx) = &sts[*k];
            let d = &ds[0];
            let mut v = Violation::new("C10", "out.compile", "namespaces").ctx("code", &d.code).exp("the output compiles (no two modules of one name, legal prefixes)").act(format!("{} | {}", d.message, d.snippet)).depth(st.depth).case(case_json(st));
            for (a, b) in ctx {
                v = v.ctx(a, b);
            }
            agg.add(v);
        }
    }
    agg.flush(&mut rep);
    rep.set("states", json!(sts.len()));
    rep.set("transitions", json!(sts.len()));
    rep.set("traces_validated_against_impl", json!(sts.len()));
    rep.set("states_fully_conformant", json!(conformant));
    rep.set("states_compiled", json!(compile_cases.len()));
    rep.set("exhaustive", json!(true));
    rep.set("bound", json!("11 adversarial URIs (equal last segments, equal three-letter abbreviations, dots and dashes, URN, upper case, trailing slash, leading digit, 'xml', non-ASCII): every single URI, every ordered pair x 3 ways of introducing the second namespace (root xmlns, nested xmlns on the referring component, targetNamespace of an imported file only), ordered triples over the colliding URIs x both import orders, families of 2..12 URIs with one abbreviation (two import orders), two 6-sets"));
    rep.assume("prefix and module assignments are read from the namespaces maps and the module tree of the emitted file (syn), never assumed");
    rep.finish()
}
