//! C12: generation is a deterministic function of the input files: identical bytes for every hash
//! seed (fresh threads and fresh processes), every registration order of the file set, every
//! directory enumeration order, and every call history of length 1..3 on the same input object.

use crate::interpose::{canary_order, with_dir_order, with_hash_seed};
use crate::report::{machinery, Report, Violation};
use crate::runner::{run_on, Case, Outcome, Pool};
use rayon::prelude::*;
use serde_json::json;
use std::collections::{BTreeMap, BTreeSet};
use zeep_lib::reader::{Files, FilesToRead, WriteXml, XmlReader};

struct Input {
    label: String,
    case: Case,
}

fn inputs(tier: &str) -> Vec<Input> {
    let mut v = vec![];
    let big = ["aacc", "exchange", "cwmp", "aic_agent", "smgr_userimport", "smgr_agent"];
    for (l, c) in crate::corpus::all_repo_cases() {
        if tier == "quick" && big.contains(&l.as_str()) && l != "aacc" {
            continue;
        }
        v.push(Input { label: l, case: c });
    }
    for n in ["s0", "w0", "kitchen_xsd", "kitchen_wsdl"] {
        v.push(Input { label: format!("seed:{n}"), case: crate::seeds::by_name(n).to_case() });
    }
    // an unreferenced sibling next to a connected pair (the CLI helper registers it anyway)
    {
        let mut c = crate::seeds::s0().to_case();
        let mut extra = crate::seeds::s1();
        extra.files[0].name = "unused.xsd".into();
        extra.files[0].tns = "http://zv.example/unused".into();
        extra.files[0].prefixes = vec![("a".into(), "http://zv.example/unused".into())];
        for comp in extra.files[0].comps.iter_mut() {
            let n = format!("Unused{}", comp.name());
            comp.set_name(&n);
        }
        c.files.push(("unused.xsd".into(), crate::schema::print_xsd(&extra.files[0])));
        c.files.push(("zz-unused2.xsd".into(), crate::schema::print_xsd(&extra.files[0]).replace("Unused", "Unused2")));
        v.push(Input { label: "gen:unreferenced-siblings".into(), case: c });
    }
    // a type whose members come from two namespaces other than its own (three-file extension chain)
    if let Some(st) = super::c08::three_namespace_chains("quick").into_iter().find(|s| s.depth == 2 && s.label.contains("T0[alpha] <- T1[beta] <- T2[gamma]")) {
        v.push(Input { label: "gen:members-of-two-foreign-namespaces".into(), case: st.set.to_case() });
    }
    // an import WITHOUT schemaLocation of a namespace that two registered siblings declare (different
    // content): it contributes nothing, whatever the order in which the siblings were registered
    {
        let mut set = crate::seeds::s0();
        const NS_X: &str = "http://zv.example/extra";
        set.files[0].imports.push(crate::schema::Import { ns: NS_X.into(), loc: None });
        let mut c = set.to_case();
        for (n, ty) in [("x1.xsd", "ExtraOne"), ("x2.xsd", "ExtraTwo")] {
            let f = crate::schema::XsdFile { name: n.into(), tns: NS_X.into(), prefixes: vec![("x".into(), NS_X.into())], default_ns: None, imports: vec![], comps: vec![crate::seeds::complex(ty, vec![crate::seeds::el("V", crate::schema::TypeRef::b("string"))])] };
            c.files.push((n.into(), crate::schema::print_xsd(&f)));
        }
        v.push(Input { label: "gen:location-less-import-with-two-candidate-siblings".into(), case: c });
    }
    // a sibling whose NAME differs from an imported file's only in letter case (different content)
    {
        let mut c = crate::seeds::s0().to_case();
        let mut other = crate::seeds::s0();
        for comp in other.files[1].comps.iter_mut() {
            let n = format!("Upper{}", comp.name());
            comp.set_name(&n);
        }
        c.files.push(("B.xsd".into(), crate::schema::print_xsd(&other.files[1])));
        c.files.push(("A.XSD".into(), crate::schema::print_xsd(&other.files[1]).replace("Upper", "Shout")));
        v.push(Input { label: "gen:sibling-names-differ-in-case-only".into(), case: c });
    }
    // several namespaces whose abbreviations collide, declared on one element
    {
        let mut s = crate::seeds::s0();
        let nss = ["http://zv.example/v1/types", "http://zv.example/v2/types", "http://zv.example/v3/types"];
        s.files[0].prefixes = vec![("t1".into(), nss[0].into()), ("t2".into(), nss[1].into()), ("t3".into(), nss[2].into())];
        s.files[0].tns = nss[0].into();
        s.files[0].imports = vec![crate::schema::Import { ns: nss[1].into(), loc: Some("b.xsd".into()) }];
        s.files[1].tns = nss[1].into();
        s.files[1].prefixes = vec![("t2".into(), nss[1].into()), ("t3".into(), nss[2].into())];
        crate::seeds::holder_mut(&mut s).seq = Some(crate::schema::Seq::of(vec![
            crate::seeds::el("Own", crate::schema::TypeRef::n(nss[0], "Leaf")),
            crate::seeds::el("Other", crate::schema::TypeRef::n(nss[1], "LeafB")),
        ]));
        v.push(Input { label: "gen:colliding-abbreviations".into(), case: s.to_case() });
    }
    // messages with several parts that no soap:header claims and a body without parts= (the body
    // part is then chosen among several candidates)
    for unbound in 2..=3usize {
        use super::wsdlgen::{wsdl_with, OpSpec};
        let mut s = wsdl_with(&[OpSpec { in_headers: unbound, out_headers: unbound, headers_without_parts: true, ..OpSpec::simple("PlaceOrder") }, OpSpec { in_headers: 1, headers_without_parts: true, ..OpSpec::simple("AuditOrder") }], "OrderService", "http://127.0.0.1:9/orders");
        let w = s.wsdl.as_mut().unwrap();
        w.b_ops[0].input.headers.clear();
        if let Some(o) = w.b_ops[0].output.as_mut() {
            o.headers.clear();
        }
        v.push(Input { label: format!("gen:wsdl-{unbound}-unclaimed-parts"), case: s.to_case() });
    }
    // generated WSDLs with k operations and 2..3 parts per message
    for k in 2..=4usize {
        let mut s = crate::seeds::w0();
        for i in 1..k {
            crate::seeds::add_operation(&mut s, &format!("Op{}{}", ["Alpha", "Beta", "Gamma", "Delta"][i % 4], i), true, 1 + i % 2, i % 2, i % 2 == 0, i % 2 == 1);
        }
        v.push(Input { label: format!("gen:wsdl-{k}-ops"), case: s.to_case() });
    }
    v
}

fn ftr_in_order(case: &Case, order: &[usize]) -> FilesToRead {
    let (n0, t0) = &case.files[order[0]];
    let mut files = Files::new(n0, t0);
    for &i in &order[1..] {
        let (n, t) = &case.files[i];
        files.add(n, t);
    }
    FilesToRead::new(&case.start, files)
}

fn permutations(n: usize) -> Vec<Vec<usize>> {
    fn rec(cur: &mut Vec<usize>, used: &mut Vec<bool>, n: usize, out: &mut Vec<Vec<usize>>) {
        if cur.len() == n {
            out.push(cur.clone());
            return;
        }
        for i in 0..n {
            if !used[i] {
                used[i] = true;
                cur.push(i);
                rec(cur, used, n, out);
                cur.pop();
                used[i] = false;
            }
        }
    }
    let mut out = vec![];
    rec(&mut vec![], &mut vec![false; n], n, &mut out);
    out
}

/// one observation: class + text (or error text)
fn obs(o: &Outcome) -> String {
    match o {
        Outcome::Ok(s) => format!("ok:{s}"),
        other => other.brief(),
    }
}

/// histories on ONE FilesToRead; returns the observation of every write in the history
fn run_history(ftr: &FilesToRead, h: &str) -> Vec<String> {
    let write = |d: &dyn Fn(&mut Vec<u8>) -> Result<(), String>| -> String {
        let mut buf = vec![];
        match std::panic::catch_unwind(std::panic::AssertUnwindSafe(|| d(&mut buf))) {
            Err(_) => format!("panic[write] at {}", crate::runner::last_panic_location()),
            Ok(Err(e)) => format!("err[write]: {e}"),
            Ok(Ok(())) => format!("ok:{}", String::from_utf8_lossy(&buf)),
        }
    };
    let read = || std::panic::catch_unwind(std::panic::AssertUnwindSafe(|| XmlReader::read_xml(ftr)));
    let mut out = vec![];
    match h {
        "R.W" => out.push(obs(&run_on(ftr))),
        "R.W.W" => match read() {
            Ok(Ok(d)) => {
                out.push(write(&|b| d.write_xml(b).map_err(|e| e.to_string())));
                out.push(write(&|b| d.write_xml(b).map_err(|e| e.to_string())));
            }
            Ok(Err(e)) => out.push(format!("err[read]: {e}")),
            Err(_) => out.push(format!("panic[read] at {}", crate::runner::last_panic_location())),
        },
        "R.R" | "R.R.R" => {
            let n = if h == "R.R" { 2 } else { 3 };
            for _ in 0..n {
                match read() {
                    Ok(Ok(d)) => out.push(write(&|b| d.write_xml(b).map_err(|e| e.to_string()))),
                    Ok(Err(e)) => out.push(format!("err[read]: {e}")),
                    Err(_) => out.push(format!("panic[read] at {}", crate::runner::last_panic_location())),
                }
            }
        }
        "RW.RW" => {
            out.push(obs(&run_on(ftr)));
            out.push(obs(&run_on(ftr)));
        }
        _ => unreachable!(),
    }
    out
}

const HISTORIES: [&str; 5] = ["R.W", "R.W.W", "R.R", "R.R.R", "RW.RW"];

fn first_diff(a: &str, b: &str) -> String {
    for (i, (x, y)) in a.lines().zip(b.lines()).enumerate() {
        if x != y {
            return format!("line {}: canonical `{}` vs `{}`", i + 1, crate::report::trunc(x, 90), crate::report::trunc(y, 90));
        }
    }
    format!("lengths differ: {} vs {} lines", a.lines().count(), b.lines().count())
}

fn diff_kind(a: &str, b: &str) -> &'static str {
    if !b.starts_with("ok:") {
        return "not-ok";
    }
    let la = a.lines().count();
    let lb = b.lines().count();
    if la != lb {
        return "different-length";
    }
    let mut sa: Vec<&str> = a.lines().collect();
    let mut sb: Vec<&str> = b.lines().collect();
    sa.sort();
    sb.sort();
    if sa == sb {
        "reordered-lines"
    } else {
        "different-content"
    }
}

fn viol(inp: &Input, dimension: &str, detail: &str, canonical: &str, got: &str, case_extra: serde_json::Value) -> Violation {
    let kind = if inp.case.start.ends_with(".xsd") { "xsd" } else { "wsdl" };
    let mut v = Violation::new("C12", "determinism.diff", "histories-seeds-orders")
        .ctx("dimension", dimension)
        .ctx("input_kind", kind)
        .ctx("difference", diff_kind(canonical, got))
        .exp("byte-identical to the canonical output")
        .act(first_diff(canonical, got))
        .depth(1);
    v.case = json!({"input": inp.label, "files": inp.case.files, "start": inp.case.start, "dimension": dimension, "detail": detail, "extra": case_extra});
    v
}

pub fn check(tier: &str) -> i32 {
    let mut rep = Report::new("C12", tier, "model_checking");
    if let Err(e) = crate::interpose::selftest() {
        machinery(&e);
    }
    let n_seeds: u64 = if tier == "quick" { 256 } else { 4096 };
    let ins = inputs(tier);
    // canary: how many of the k! iteration orders do the seeds realise?
    let mut canary = vec![];
    for k in 2..=4usize {
        let mut seen = BTreeSet::new();
        for s in 0..n_seeds {
            if let Ok(o) = with_hash_seed(s, move || canary_order(k)) {
                seen.insert(o);
            }
        }
        let fact: usize = (1..=k).product();
        canary.push(json!({"keys": k, "orders_seen": seen.len(), "of": fact}));
    }
    let mut states = 0u64;
    let mut transitions = 0u64;
    let mut agg: BTreeMap<String, (Violation, u64)> = BTreeMap::new();
    let mut add = |v: Violation| {
        let key = format!("{:?}|{}", v.context, v.case["input"]);
        agg.entry(key).and_modify(|e| e.1 += 1).or_insert((v, 1));
    };
    let mut skipped = vec![];
    let mut outputs_hashes: BTreeSet<String> = BTreeSet::new();
    for inp in &ins {
        let nfiles = inp.case.files.len();
        let lex: Vec<usize> = {
            let mut idx: Vec<usize> = (0..nfiles).collect();
            idx.sort_by(|a, b| inp.case.files[*a].0.cmp(&inp.case.files[*b].0));
            idx
        };
        // canonical: seed 0, lexicographic registration order, fresh object, history R.W
        let c1 = {
            let case = inp.case.clone();
            let lex = lex.clone();
            with_hash_seed(0, move || obs(&run_on(&ftr_in_order(&case, &lex))))
        };
        let c2 = {
            let case = inp.case.clone();
            let lex = lex.clone();
            with_hash_seed(0, move || obs(&run_on(&ftr_in_order(&case, &lex))))
        };
        let (Ok(canon), Ok(canon2)) = (c1, c2) else { machinery("canonical run thread died") };
        if canon != canon2 {
            machinery(&format!("replay self-test failed: input {} with the same hash seed gave two different observations (uncontrolled nondeterminism)", inp.label));
        }
        if !canon.starts_with("ok:") {
            skipped.push(json!({"input": inp.label, "reason": crate::report::trunc(&canon, 200)}));
            continue;
        }
        outputs_hashes.insert(crate::report::hash128(canon.as_bytes()));
        states += 1;
        // 1. hash seeds x registration orders (orders: all permutations for <= 4 files)
        let orders: Vec<Vec<usize>> = if nfiles <= 4 { permutations(nfiles) } else { vec![lex.clone(), lex.iter().rev().copied().collect()] };
        let seed_jobs: Vec<(u64, usize)> = (0..n_seeds).flat_map(|s| (0..orders.len()).map(move |o| (s, o))).collect();
        let res: Vec<(u64, usize, String)> = seed_jobs
            .par_iter()
            .map(|(s, o)| {
                let case = inp.case.clone();
                let order = orders[*o].clone();
                let r = with_hash_seed(*s, move || obs(&run_on(&ftr_in_order(&case, &order)))).unwrap_or_else(|_| "thread-died".into());
                (*s, *o, r)
            })
            .collect();
        // result of the lexicographic order per seed: the reference for attributing a difference
        let lex_idx = orders.iter().position(|o| *o == lex).unwrap_or(0);
        let mut by_seed: BTreeMap<u64, String> = BTreeMap::new();
        for (s, o, r) in &res {
            if *o == lex_idx {
                by_seed.insert(*s, r.clone());
            }
        }
        for (s, o, r) in res {
            states += 1;
            transitions += 1;
            if r != canon {
                // a difference is attributed to the registration order only when the same seed
                // with the lexicographic order reproduces the canonical output
                let dim = if o != lex_idx && by_seed.get(&s) == Some(&canon) { "registration-order" } else { "hash-seed" };
                add(viol(inp, dim, &format!("seed={s} order={:?}", orders[o]), &canon, &r, json!({"seed": s, "order": orders[o]})));
            }
        }
        // 2. call histories on one object, a few seeds each
        for h in HISTORIES {
            for s in [0u64, 1, 2, 3] {
                let case = inp.case.clone();
                let lex2 = lex.clone();
                let r = with_hash_seed(s, move || run_history(&ftr_in_order(&case, &lex2), h)).unwrap_or_else(|_| vec!["thread-died".into()]);
                states += 1;
                transitions += r.len() as u64;
                for (i, o) in r.iter().enumerate() {
                    // a plain single run with this seed already differs: that is the hash-seed dimension, reported above
                    if by_seed.get(&s).map(|b| *b != canon).unwrap_or(false) && by_seed.get(&s) == Some(o) {
                        continue;
                    }
                    if *o != canon {
                        let v = viol(inp, "call-history", &format!("history={h} step={i} seed={s}"), &canon, o, json!({"history": h, "step": i, "seed": s})).ctx("history", h).ctx("step", i);
                        add(v);
                    }
                }
            }
        }
        // 3. directory enumeration order through utils::read_input_file_and_xsd_files_at_path
        if nfiles <= 4 {
            let dir = std::path::PathBuf::from(format!("/verif/work/c12-dirs/{}", inp.label.replace([':', '/'], "_")));
            let _ = std::fs::remove_dir_all(&dir);
            std::fs::create_dir_all(&dir).unwrap_or_else(|e| machinery(&format!("mkdir: {e}")));
            for (n, t) in &inp.case.files {
                std::fs::write(dir.join(n), t).unwrap_or_else(|e| machinery(&format!("write: {e}")));
            }
            let nperm: u64 = (1..=nfiles as u64).product();
            for p in 0..nperm {
                let start = dir.join(&inp.case.start);
                let r = with_hash_seed(0, move || {
                    with_dir_order(p, || match std::panic::catch_unwind(|| zeep_lib::utils::read_input_file_and_xsd_files_at_path(&start)) {
                        Ok(Ok(ftr)) => obs(&run_on(&ftr)),
                        Ok(Err(e)) => format!("err[utils]: {e}"),
                        Err(_) => "panic[utils]".to_string(),
                    })
                })
                .unwrap_or_else(|_| "thread-died".into());
                states += 1;
                transitions += 1;
                if r != canon {
                    add(viol(inp, "directory-order", &format!("permutation={p}"), &canon, &r, json!({"dir_perm": p})));
                }
            }
            let _ = std::fs::remove_dir_all(&dir);
        }
        rep.sample(json!({"input": inp.label, "files": inp.case.files.iter().map(|f| f.0.clone()).collect::<Vec<_>>(), "seeds": n_seeds, "registration_orders": orders.len(), "histories": HISTORIES, "output_bytes": canon.len()}));
    }
    // 4. genuinely fresh processes (OS-chosen hash keys): a few per input
    let ok_inputs: Vec<&Input> = ins.iter().filter(|i| !skipped.iter().any(|s| s["input"] == i.label.as_str())).collect();
    let mut pool = Pool::new();
    pool.want_text = true;
    let fresh_n = if tier == "quick" { 3 } else { 8 };
    for round in 0..fresh_n {
        // one worker process per case: workers = number of cases
        let cases: Vec<Case> = ok_inputs.iter().map(|i| i.case.clone()).collect();
        pool.workers = cases.len().max(1);
        let outs = pool.run_all(&cases);
        for (inp, (o, _)) in ok_inputs.iter().zip(outs.iter()) {
            states += 1;
            transitions += 1;
            let lex_case = {
                let case = inp.case.clone();
                with_hash_seed(0, move || obs(&run_on(&crate::runner::build_files(&case).unwrap()))).unwrap_or_default()
            };
            let r = obs(o);
            if r != lex_case {
                add(viol(inp, "fresh-process", &format!("round={round}"), &lex_case, &r, json!({"round": round})));
            }
        }
    }
    let _ = std::fs::remove_dir_all("/verif/work/c12-dirs");
    for (v, n) in agg.values() {
        let mut v = v.clone();
        v.case["occurrences"] = json!(n);
        rep.violation(v);
    }
    rep.set("states", json!(states));
    rep.set("transitions", json!(transitions));
    rep.set("traces_validated_against_impl", json!(states));
    rep.set("exhaustive", json!(true));
    rep.set("bound", json!(format!("{} inputs x {} hash seeds x all registration orders (<=4 files) x histories {:?} (4 seeds each) x all directory orders (<=4 files) + {} fresh processes per input", ins.len() - skipped.len(), n_seeds, HISTORIES, fresh_n)));
    rep.set("canary_orders", json!(canary));
    rep.set("inputs_rejected_by_generator", json!(skipped));
    rep.set("distinct_canonical_outputs", json!(outputs_hashes.len()));
    rep.set("evaluations", json!(states));
    rep.assume("std's RandomState keys are drawn per thread through getrandom(2); the harness defines that symbol in its own executable and runs every case on a fresh thread, so the hash keys are part of the case");
    rep.assume("hash seeds are a finite sweep (canary_orders reports how many of the k! iteration orders of a k-key map they realise), not all 2^128 keys");
    rep.finish()
}

pub fn replay(v: &Violation) -> i32 {
    let files: Vec<(String, String)> = serde_json::from_value(v.case["files"].clone()).unwrap_or_default();
    let start = v.case["start"].as_str().unwrap_or("").to_string();
    let case = Case { files, start };
    let inp = Input { label: v.case["input"].as_str().unwrap_or("?").into(), case: case.clone() };
    let n = case.files.len();
    let mut lex: Vec<usize> = (0..n).collect();
    lex.sort_by(|a, b| case.files[*a].0.cmp(&case.files[*b].0));
    let canon = {
        let (c, l) = (case.clone(), lex.clone());
        with_hash_seed(0, move || obs(&run_on(&ftr_in_order(&c, &l)))).unwrap()
    };
    let ex = &v.case["extra"];
    let dim = v.case["dimension"].as_str().unwrap_or("");
    let got: Vec<String> = match dim {
        "hash-seed" | "registration-order" => {
            let seed = ex["seed"].as_u64().unwrap_or(0);
            let order: Vec<usize> = serde_json::from_value(ex["order"].clone()).unwrap_or(lex.clone());
            let c = case.clone();
            vec![with_hash_seed(seed, move || obs(&run_on(&ftr_in_order(&c, &order)))).unwrap()]
        }
        "call-history" => {
            let h = HISTORIES.iter().find(|x| Some(**x) == ex["history"].as_str()).copied().unwrap_or("R.R");
            let seed = ex["seed"].as_u64().unwrap_or(0);
            let (c, l) = (case.clone(), lex.clone());
            with_hash_seed(seed, move || run_history(&ftr_in_order(&c, &l), h)).unwrap()
        }
        _ => {
            println!("replay C12: dimension {dim} is replayed by re-running the check (needs a scratch directory / fresh processes)");
            return check("quick");
        }
    };
    let bad = got.iter().any(|g| *g != canon);
    println!("replay C12: input={} dimension={dim} -> {}", inp.label, if bad { "DIFFERS" } else { "identical" });
    if bad {
        for g in &got {
            if *g != canon {
                println!("VIOLATION property=C12 replay=(replayed) {}", first_diff(&canon, g));
            }
        }
        1
    } else {
        0
    }
}
