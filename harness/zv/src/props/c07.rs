//! C07: declared facets are enforced at every depth (header and body, nested, optional, repeated,
//! attribute, inherited through complex extension, inherited through simple-type derivation) and
//! before anything is sent.

use super::common::*;
use crate::batch::{run_batch, BatchCase};
use crate::extract::Extract;
use crate::reference::RefModel;
use crate::report::{Report, Violation};
use crate::schema::*;
use crate::seeds::*;
use crate::soap::{discover, envelope_value, expected_ops};
use crate::wire::Lex;
use serde_json::json;
use std::collections::BTreeMap;

#[derive(Clone, Debug)]
struct Cfg {
    label: String,
    base: &'static str,
    /// facets added at each derivation level (R0, R1 restricts R0, ...)
    chain: Vec<Vec<(&'static str, &'static str)>>,
    valid: Vec<&'static str>,
    /// (value, what it violates)
    bad: Vec<(&'static str, &'static str)>,
    /// level 0 of the chain lives in an imported schema file of another namespace
    base_in_imported_file: bool,
}

fn configs(tier: &str) -> Vec<Cfg> {
    let one = |label: &str, base: &'static str, f: Vec<(&'static str, &'static str)>, valid: Vec<&'static str>, bad: Vec<(&'static str, &'static str)>| Cfg { label: label.into(), base, chain: vec![f], valid, bad, base_in_imported_file: false };
    let mut v = vec![
        one("string maxLength=3", "string", vec![("maxLength", "3")], vec!["abc", "\u{e9}\u{20ac}x"], vec![("abcd", "maxLength")]),
        one("string minLength=2", "string", vec![("minLength", "2")], vec!["ab"], vec![("a", "minLength")]),
        one("string length=2", "string", vec![("length", "2")], vec!["ab"], vec![("abc", "length"), ("a", "length")]),
        one("string maxLength=0", "string", vec![("maxLength", "0")], vec![""], vec![("a", "maxLength")]),
        one("string length=0", "string", vec![("length", "0")], vec![""], vec![("x", "length")]),
        one("string enumeration", "string", vec![("enumeration", "red"), ("enumeration", "green")], vec!["red", "green"], vec![("blue", "enumeration")]),
        one("int minInclusive=1", "int", vec![("minInclusive", "1")], vec!["1"], vec![("0", "minInclusive")]),
        one("int maxInclusive=10", "int", vec![("maxInclusive", "10")], vec!["10"], vec![("11", "maxInclusive")]),
        one("int minExclusive=0", "int", vec![("minExclusive", "0")], vec!["1"], vec![("0", "minExclusive")]),
        one("int maxExclusive=10", "int", vec![("maxExclusive", "10")], vec!["9"], vec![("10", "maxExclusive")]),
        one("long maxInclusive=2147483647", "long", vec![("maxInclusive", "2147483647")], vec!["2147483647", "-9000000000"], vec![("2147483648", "maxInclusive")]),
        one("string minLength=2 maxLength=3", "string", vec![("minLength", "2"), ("maxLength", "3")], vec!["ab", "abc"], vec![("a", "minLength"), ("abcd", "maxLength")]),
        one("int minInclusive=1 maxInclusive=10", "int", vec![("minInclusive", "1"), ("maxInclusive", "10")], vec!["1", "10"], vec![("0", "minInclusive"), ("11", "maxInclusive")]),
        // derivation chains: the used type is the LAST level; ancestors' facets must hold too
        Cfg { label: "chain depth 2: maxLength=4 <- minLength=2".into(), base: "string", chain: vec![vec![("maxLength", "4")], vec![("minLength", "2")]], valid: vec!["ab", "abcd"], bad: vec![("a", "own minLength"), ("abcde", "inherited maxLength")], base_in_imported_file: false },
        Cfg { label: "chain depth 2 across files: imported maxLength=4 <- minLength=2".into(), base: "string", chain: vec![vec![("maxLength", "4")], vec![("minLength", "2")]], valid: vec!["ab", "abcd"], bad: vec![("a", "own minLength"), ("abcde", "inherited maxLength (imported file)")], base_in_imported_file: true },
        Cfg {
            label: "chain depth 3: maxLength=4 <- minLength=2 <- enumeration".into(),
            base: "string",
            chain: vec![vec![("maxLength", "4")], vec![("minLength", "2")], vec![("enumeration", "ab"), ("enumeration", "abcd"), ("enumeration", "a"), ("enumeration", "abcdef")]],
            valid: vec!["ab", "abcd"],
            bad: vec![("abc", "own enumeration"), ("a", "inherited minLength (level 1)"), ("abcdef", "inherited maxLength (level 0)")],
            base_in_imported_file: false,
        },
        Cfg { label: "chain depth 2: int minInclusive=1 <- maxInclusive=10".into(), base: "int", chain: vec![vec![("minInclusive", "1")], vec![("maxInclusive", "10")]], valid: vec!["1", "10"], bad: vec![("11", "own maxInclusive"), ("0", "inherited minInclusive")], base_in_imported_file: false },
    ];
    if tier == "quick" {
        // quick: every facet kind once + the chains
        v.retain(|c| !c.label.starts_with("int maxExclusive") && !c.label.starts_with("int minExclusive") && !c.label.starts_with("string length") && !c.label.starts_with("int minInclusive=1 max"));
    }
    v
}

const POSITIONS: [(&str, &str); 12] = [
    ("Op::Direct", "body-direct"),
    ("Op::Opt", "body-optional"),
    ("Op::Many#0", "body-repeated-first"),
    ("Op::Many#1", "body-repeated-second"),
    ("Level1::Inner", "body-nested-1"),
    ("Level2::Deepest", "body-nested-2"),
    ("Op::attr", "body-attribute"),
    ("DerivedT::Inh", "body-inherited-member"),
    ("Hdr::Token", "header"),
    ("Op::Coded", "body-ref-to-global-element"),
    ("Op::PickA", "body-choice-branch"),
    ("Op::direct", "body-attribute-named-like-an-element"),
];

fn build(cfg: &Cfg) -> SchemaSet {
    let mut s = w0();
    let w = s.wsdl.as_mut().unwrap();
    w.schema.comps.clear();
    let n = cfg.chain.len();
    const NS_COMMON: &str = "http://zv.example/common";
    let mut common: Vec<Comp> = vec![];
    for (lvl, facets) in cfg.chain.iter().enumerate() {
        let level_ns = |l: usize| if cfg.base_in_imported_file && l == 0 { NS_COMMON } else { NS_W };
        let st = Comp::Simple(SimpleType {
            name: format!("R{lvl}"),
            doc: None,
            xmlns: vec![],
            base: if lvl == 0 { TypeRef::b(cfg.base) } else { TypeRef::n(level_ns(lvl - 1), &format!("R{}", lvl - 1)) },
            facets: facets.iter().map(|(k, v)| Facet { kind: k.to_string(), value: v.to_string() }).collect(),
            facets_as_attrs: false,
        });
        if cfg.base_in_imported_file && lvl == 0 {
            common.push(st);
        } else {
            w.schema.comps.push(st);
        }
    }
    if cfg.base_in_imported_file {
        w.prefixes.push(("cmn".into(), NS_COMMON.into()));
        w.schema.imports.push(Import { ns: NS_COMMON.into(), loc: Some("common.xsd".into()) });
    }
    let r = TypeRef::n(NS_W, &format!("R{}", n - 1));
    w.schema.comps.push(complex("Level2", vec![el("Deepest", r.clone())]));
    w.schema.comps.push(complex("Level1", vec![el("Inner", r.clone()), el("Deep", TypeRef::n(NS_W, "Level2"))]));
    w.schema.comps.push(complex("BaseT", vec![el("Inh", r.clone())]));
    w.schema.comps.push(Comp::Complex(ComplexType { name: "DerivedT".into(), base: Some(QName::new(NS_W, "BaseT")), seq: Some(Seq::of(vec![el("Own", TypeRef::b("string"))])), ..Default::default() }));
    w.schema.comps.push(Comp::Element(GlobalElement {
        name: "Op".into(),
        doc: None,
        xmlns: vec![],
        kind: GlobalKind::Anonymous {
            seq: Some(Seq::of(vec![
                el("Direct", r.clone()),
                el_occ("Opt", r.clone(), 0, Max::N(1)),
                el_occ("Many", r.clone(), 0, Max::Unbounded),
                el("Nested", TypeRef::n(NS_W, "Level1")),
                el("Derived", TypeRef::n(NS_W, "DerivedT")),
                Particle::Ref(ElemRef { target: QName::new(NS_W, "Coded"), min: 0, max: Max::N(1), xmlns: vec![] }),
                Particle::Choice(vec![el("PickA", r.clone()), el("PickB", TypeRef::b("string"))]),
            ])),
            attrs: vec![Attr { name: "attr".into(), ty: r.clone(), required: false, value_constraint: None }, Attr { name: "direct".into(), ty: r.clone(), required: false, value_constraint: None }],
        },
    }));
    w.schema.comps.push(typed_element("Coded", r.clone()));
    w.schema.comps.push(anon_element("Hdr", vec![el("Token", r.clone())]));
    w.schema.comps.push(anon_element("OpResponse", vec![el("Result", TypeRef::b("string"))]));
    w.messages = vec![
        Message { name: "OpIn".into(), parts: vec![Part { name: "parameters".into(), element: QName::new(NS_W, "Op") }, Part { name: "hdr".into(), element: QName::new(NS_W, "Hdr") }] },
        Message { name: "OpOut".into(), parts: vec![Part { name: "parameters".into(), element: QName::new(NS_W, "OpResponse") }] },
    ];
    w.pt_ops = vec![PtOp { name: "Op".into(), input: "OpIn".into(), output: Some("OpOut".into()) }];
    w.b_ops = vec![BOp { name: "Op".into(), action: None, input: BIo { headers: vec![("OpIn".into(), "hdr".into())], parts: Some("parameters".into()) }, output: Some(BIo::default()) }];
    if cfg.base_in_imported_file {
        s.files.push(XsdFile { name: "common.xsd".into(), tns: NS_COMMON.into(), prefixes: vec![("cmn".into(), NS_COMMON.into())], default_ns: None, imports: vec![], comps: common });
    }
    s
}

#[derive(Clone, Debug)]
struct Placement {
    /// position index -> index into cfg.bad
    bad: BTreeMap<usize, usize>,
    /// index into cfg.valid used for the other positions
    valid: usize,
}

fn placements(cfg: &Cfg, tier: &str) -> Vec<Placement> {
    let mut out = vec![];
    for v in 0..cfg.valid.len() {
        out.push(Placement { bad: BTreeMap::new(), valid: v });
    }
    // singles: every position x every violating value
    for p in 0..POSITIONS.len() {
        for b in 0..cfg.bad.len() {
            out.push(Placement { bad: [(p, b)].into_iter().collect(), valid: 0 });
        }
    }
    // pairs (thorough: all; quick: neighbouring positions) and a triple
    for p in 0..POSITIONS.len() {
        for q in (p + 1)..POSITIONS.len() {
            if tier == "quick" && q != p + 1 {
                continue;
            }
            out.push(Placement { bad: [(p, 0), (q, cfg.bad.len() - 1)].into_iter().collect(), valid: cfg.valid.len() - 1 });
        }
    }
    out.push(Placement { bad: [(0, 0), (4, 0), (8, 0)].into_iter().collect(), valid: 0 });
    out
}

fn lex_for(cfg: &Cfg, text: &str) -> Lex {
    if cfg.base == "string" {
        Lex::Str(text.to_string())
    } else {
        text.parse::<i128>().map(Lex::Int).unwrap_or(Lex::Str(text.to_string()))
    }
}

/// the path of the restriction-check trait, discovered through an impl of a method on the envelope
fn check_trait_path(ex: &Extract) -> Option<(String, String)> {
    let f = ex.fns.iter().find(|f| f.trait_of.is_some() && f.has_self && f.args.len() == 1 && f.ret.as_ref().map(|r| r.text.contains("SoapResult") || r.text.contains("Result")).unwrap_or(false))?;
    let tname = f.trait_of.clone()?;
    let m = ex.mods.iter().find(|m| m.items.iter().any(|(n, k)| *n == tname && *k == "trait"))?;
    let mut p = m.path.clone();
    p.push(tname);
    Some((format!("zg::{}", p.join("::")), f.name.clone()))
}

pub fn check(tier: &str) -> i32 {
    let mut rep = Report::new("C07", tier, "model_checking");
    let mut agg = Agg::new();
    // since round 4 the quick tier explores the thorough bound (the whole product costs seconds)
    let bound_tier = "thorough";
    let cfgs = configs(bound_tier);
    let states: Vec<State> = cfgs.iter().map(|c| State { label: format!("facets {}", c.label), depth: c.chain.len() as u32, set: build(c) }).collect();
    let ran = run_states(&states);
    let mut cases = vec![];
    let mut plans: Vec<(usize, Vec<Placement>)> = vec![];
    for (i, (st, r)) in states.iter().zip(ran.iter()).enumerate() {
        let cfg = &cfgs[i];
        if let Some(v) = judge_run("C07", "facet-positions", st, r, "facets") {
            agg.add(v.ctx("facets", &cfg.label));
            continue;
        }
        let ex = r.extract.as_ref().unwrap().as_ref().unwrap();
        let model = RefModel::build(&st.set);
        let ops = expected_ops(&st.set);
        let view = discover(ex);
        let method = view.services.iter().flat_map(|(s, ms)| ms.iter().map(move |m| (s, m))).find(|(_, m)| m.req.is_some());
        let (Some((svc, m)), Some(op), Some((trait_path, trait_fn))) = (method, ops.first(), check_trait_path(ex)) else {
            agg.add(Violation::new("C07", "client.surface", "facet-positions").ctx("facets", &cfg.label).exp("a client method, a request envelope and a restriction-check trait").act("not discovered").depth(st.depth).case(case_json(st)));
            continue;
        };
        let env = m.req.unwrap();
        let pls = placements(cfg, bound_tier);
        let mut d = format!("use {trait_path} as ZvCheck;\n");
        let mut problems = vec![];
        for (pi, pl) in pls.iter().enumerate() {
            let ov = |key: &str| -> Option<(String, Lex)> {
                let idx = POSITIONS.iter().position(|(k, _)| *k == key);
                match idx {
                    Some(p) => {
                        let t = match pl.bad.get(&p) {
                            Some(b) => cfg.bad[*b].0,
                            None => cfg.valid[pl.valid],
                        };
                        Some((t.to_string(), lex_for(cfg, t)))
                    }
                    None => {
                        // Many#2.. : stop after two items
                        None
                    }
                }
            };
            let v = envelope_value(ex, &model, env, &op.input, true, &ov);
            if !v.problems.is_empty() && problems.is_empty() {
                problems = v.problems.clone();
            }
            d.push_str(&format!("fn p{pi}() -> zg::{} {{ {} }}\n", env.path().join("::"), v.expr));
        }
        if !problems.is_empty() {
            agg.add(Violation::new("C07", "client.surface", "facet-positions").ctx("facets", &cfg.label).exp("request envelope buildable from the discovered types").act(format!("{problems:?}")).depth(st.depth).case(case_json(st)));
            continue;
        }
        d.push_str("pub fn run(out: &mut zvp::Out) {\n    let rt = zvp::runtime();\n");
        for (pi, pl) in pls.iter().enumerate() {
            d.push_str(&format!("    out.emit(\"chk:{pi}\", &match ZvCheck::{trait_fn}(&p{pi}(), None) {{ Ok(()) => \"Ok\".to_string(), Err(e) => format!(\"Err:{{e:?}}\") }});\n"));
            // transmission half: all-valid placements and single violations
            if pl.bad.len() <= 1 {
                d.push_str(&format!(
                    "    {{ let server = zvp::serve(vec![zvp::Reply::Http(200, String::new())]); let mut svc = zg::{}::new(None); svc.location = server.url(\"/zv\"); let r = rt.block_on(async move {{ svc.{}(p{pi}()).await }}); std::thread::sleep(std::time::Duration::from_millis(1)); out.emit_kv(\"tx:{pi}\", &[(\"result\", match &r {{ Ok(_) => \"Ok\".to_string(), Err(e) => format!(\"Err:{{e:?}}\") }}), (\"connections\", server.connections().to_string())]); }}\n",
                    svc.path().join("::"),
                    m.f.name
                ));
            }
        }
        d.push_str("}\n");
        cases.push(BatchCase { id: format!("s{i}"), emitted: r.outcome.text().unwrap().to_string(), driver: Some(d) });
        plans.push((i, pls));
    }
    let res = run_batch("c07", &cases, 120_000);
    let mut verdicts = 0u64;
    let mut transmissions = 0u64;
    for (i, pls) in &plans {
        let st = &states[*i];
        let cfg = &cfgs[*i];
        let id = format!("s{i}");
        if let Some(ds) = res.compile_errors.get(&id) {
            let d = &ds[0];
            agg.add(Violation::new("C07", "out.compile", "facet-positions").ctx("facets", &cfg.label).ctx("in_driver", d.in_driver).exp("generated code with these facets and the driver compile").act(format!("{} | {}", d.message, d.snippet)).depth(st.depth).case(case_json(st)));
            continue;
        }
        if let Some(f) = res.run_failures.get(&id) {
            agg.add(Violation::new("C07", "run.failure", "facet-positions").ctx("facets", &cfg.label).exp("driver runs to completion").act(f).depth(st.depth).case(case_json(st)));
        }
        let mut lm: BTreeMap<String, serde_json::Value> = BTreeMap::new();
        for l in res.lines.get(&id).map(|v| v.as_slice()).unwrap_or(&[]) {
            if let Some(k) = l["k"].as_str() {
                lm.insert(k.to_string(), l.clone());
            }
        }
        for (pi, pl) in pls.iter().enumerate() {
            let expect_err = !pl.bad.is_empty();
            let positions: Vec<&str> = pl.bad.keys().map(|p| POSITIONS[*p].1).collect();
            let violated: Vec<&str> = pl.bad.values().map(|b| cfg.bad[*b].1).collect();
            let mk = |clause: &str| {
                let mut c = case_json(st);
                c["placement"] = json!({"bad_positions": positions, "violated": violated, "values": pl.bad.iter().map(|(p, b)| format!("{}={}", POSITIONS[*p].0, cfg.bad[*b].0)).collect::<Vec<_>>(), "others": cfg.valid[pl.valid]});
                Violation::new("C07", clause, "facet-positions")
                    .ctx("facets", &cfg.label)
                    .ctx("position", if positions.len() == 1 { positions[0].to_string() } else if positions.is_empty() { "none (all valid)".to_string() } else { format!("{} positions", positions.len()) })
                    .ctx("violates", if violated.len() == 1 { violated[0].to_string() } else { format!("{}", violated.len()) })
                    .depth(st.depth)
                    .case(c)
            };
            if let Some(v) = lm.get(&format!("chk:{pi}")).and_then(|l| l["v"].as_str()) {
                verdicts += 1;
                let got_err = v.starts_with("Err");
                if got_err != expect_err {
                    agg.add(mk("facet.verdict").exp(if expect_err { "Err (a placed value violates a declared facet)" } else { "Ok (every value satisfies every declared facet)" }).act(v));
                }
            }
            if let Some(t) = lm.get(&format!("tx:{pi}")) {
                transmissions += 1;
                let result = t["result"].as_str().unwrap_or("");
                let conns = t["connections"].as_str().unwrap_or("");
                if expect_err {
                    if conns != "0" {
                        agg.add(mk("send.before_check").exp("no connection is opened for a request that violates a facet").act(format!("{conns} connection(s); result {result}")));
                    } else if !result.contains("Restriction") {
                        agg.add(mk("send.before_check").ctx("aspect", "error-kind").exp("the restriction error").act(result));
                    }
                } else if conns != "1" {
                    agg.add(mk("send.before_check").ctx("aspect", "valid-request").exp("exactly one connection for a valid request").act(format!("{conns} connection(s); result {result}")));
                }
            }
        }
        rep.sample(json!({"facets": cfg.label, "placements": pls.len(), "example": pls.get(cfg.valid.len()).map(|p| p.bad.iter().map(|(p, b)| format!("{}={}", POSITIONS[*p].0, cfg.bad[*b].0)).collect::<Vec<_>>())}));
    }
    agg.flush(&mut rep);
    rep.set("states", json!(states.len()));
    rep.set("transitions", json!(plans.iter().map(|p| p.1.len()).sum::<usize>()));
    rep.set("traces_validated_against_impl", json!(plans.len()));
    rep.set("verdicts_judged", json!(verdicts));
    rep.set("transmissions_judged", json!(transmissions));
    rep.set("exhaustive", json!(true));
    rep.set("bound", json!("facet configurations (each facet kind on string/int/long, two pairs, derivation chains of depth 2 and 3, one of them with its first level in an imported schema file of another namespace) x 12 positions of the restricted value (direct, optional, first/second item of a repeated member, nested 1 and 2 levels, attribute, member inherited through a complex extension, header part, a ref= to a global element of the restricted type, a choice branch, an attribute whose name differs from an element's in case only) x placements: all-valid (each boundary value), every single position x every violating value, all pairs (both tiers since round 4), one triple; transmission half for all-valid and single placements"));
    rep.set("batch", json!({"packages": res.packages, "cache_hits": res.cache_hits, "build_s": res.build_secs, "run_s": res.run_secs}));
    rep.assume("the restriction-check trait and method are discovered through an impl in the emitted file");
    rep.finish()
}
