//! Values of generated types: for a component (complex type / global element) and a vector of
//! choices, the Rust expression that builds the value by COMPLETE struct literals through the
//! discovered paths, and the infoset the XSD/SOAP rules expect for it on the wire.

use crate::extract::{Extract, StructInfo, Wrapper};
use crate::reference::{find_struct, CompKind, ExpComp, ExpMember, ExpTy, RefModel};
use crate::wire::{ExpElem, Lex};

pub struct Gen<'a> {
    pub ex: &'a Extract,
    pub model: &'a RefModel,
    pub choices: Vec<usize>,
    pub arities: Vec<usize>,
    pos: usize,
    depth: usize,
    /// reasons why a value could not be built (API mismatch etc.)
    pub problems: Vec<String>,
    /// crate-level alias under which the struct paths are reachable (`zg` = generated, `zr` = reference)
    pub root: &'static str,
    /// text override for simple-typed / string members: key "<Component>::<wire name>" -> (text, lexical)
    pub overrides: Option<&'a dyn Fn(&str) -> Option<(String, Lex)>>,
    /// component whose members are currently generated (for override keys)
    cur_comp: String,
}

/// (rust literal, lexical value) alternatives of a builtin
pub fn builtin_alternatives(rust: &str, xsd: &str) -> Vec<(String, Lex)> {
    let ints = |vals: &[i128], suffix: &str| vals.iter().map(|v| (if *v < 0 { format!("({v}{suffix})") } else { format!("{v}{suffix}") }, Lex::Int(*v))).collect::<Vec<_>>();
    match rust {
        "i8" => ints(&[0, -1, 1, i8::MIN as i128, i8::MAX as i128], "i8"),
        "u8" => ints(&[0, 1, u8::MAX as i128], "u8"),
        "i16" => ints(&[0, -1, 1, i16::MIN as i128, i16::MAX as i128], "i16"),
        "u16" => ints(&[0, 1, u16::MAX as i128], "u16"),
        "i32" => match xsd {
            "positiveInteger" => ints(&[1, i32::MAX as i128], "i32"),
            "nonNegativeInteger" => ints(&[0, 1, i32::MAX as i128], "i32"),
            "negativeInteger" => ints(&[-1, i32::MIN as i128], "i32"),
            "nonPositiveInteger" => ints(&[0, -1, i32::MIN as i128], "i32"),
            _ => ints(&[0, -1, 1, i32::MIN as i128, i32::MAX as i128], "i32"),
        },
        "u32" => ints(&[0, 1, u32::MAX as i128], "u32"),
        "i64" => ints(&[0, -1, 1, i64::MIN as i128, i64::MAX as i128], "i64"),
        "u64" => ints(&[0, 1, u64::MAX as i128], "u64"),
        "f32" => vec![
            ("0.0f32".into(), Lex::Float32(0.0)),
            ("(-1.5f32)".into(), Lex::Float32(-1.5)),
            ("f32::MAX".into(), Lex::Float32(f32::MAX)),
            ("f32::MIN_POSITIVE".into(), Lex::Float32(f32::MIN_POSITIVE)),
            ("f32::NAN".into(), Lex::Float32(f32::NAN)),
        ],
        "f64" => {
            let mut v = vec![("0.0f64".into(), Lex::Float(0.0)), ("(-1.5f64)".into(), Lex::Float(-1.5)), ("f64::MAX".into(), Lex::Float(f64::MAX)), ("f64::MIN_POSITIVE".into(), Lex::Float(f64::MIN_POSITIVE))];
            if xsd == "double" {
                v.push(("f64::NAN".into(), Lex::Float(f64::NAN)));
            }
            v
        }
        "bool" => vec![("true".into(), Lex::Bool(true)), ("false".into(), Lex::Bool(false))],
        _ => {
            let strs: Vec<&str> = match xsd {
                "string" => vec!["x", "a<b&c>\"'", "\u{e9}\u{20ac}", "  padded  "],
                "normalizedString" => vec!["a b", "x"],
                "base64Binary" => vec!["AQID"],
                "hexBinary" => vec!["0FB7"],
                "anyURI" => vec!["http://zv.example/p?a=b&c=d"],
                "date" => vec!["2024-02-29"],
                "dateTime" => vec!["2024-02-29T12:30:00Z"],
                "time" => vec!["12:30:00"],
                "language" => vec!["en-US"],
                "duration" => vec!["P1DT2H"],
                _ => vec!["x"],
            };
            strs.into_iter().map(|s| (format!("{s:?}.to_string()"), Lex::Str(s.to_string()))).collect()
        }
    }
}

/// a text that satisfies the facets used by the seeds for named simple types
fn simple_text(name: &str) -> &'static str {
    match name {
        n if n.starts_with("Code") || n.starts_with("ExtraCode") => "abc",
        _ => "abc",
    }
}

impl<'a> Gen<'a> {
    pub fn new(ex: &'a Extract, model: &'a RefModel, choices: Vec<usize>) -> Gen<'a> {
        Gen { ex, model, choices, arities: vec![], pos: 0, depth: 0, problems: vec![], root: "zg", overrides: None, cur_comp: String::new() }
    }

    fn pick(&mut self, n: usize) -> usize {
        if self.depth > 0 || n <= 1 {
            return 0;
        }
        let i = self.pos;
        self.pos += 1;
        self.arities.push(n);
        self.choices.get(i).copied().unwrap_or(0) % n
    }

    fn rust_path(&self, st: &StructInfo) -> String {
        format!("{}::{}", self.root, st.path().join("::"))
    }

    /// value of a simple-type struct carrying `text`
    fn simple_struct_expr(&mut self, st: &StructInfo, text: &str, guard: usize) -> String {
        let mut fields = vec![];
        for f in &st.fields {
            let e = if f.ty.path == ["String"] {
                format!("{text:?}.to_string()")
            } else {
                match self.ex.resolve_type(&st.module, &f.ty) {
                    crate::extract::ResolvedType::Struct(inner) if guard < 6 => self.simple_struct_expr(inner, text, guard + 1),
                    _ => {
                        self.problems.push(format!("simple struct {} has a field `{}` of unexpected type {}", st.name, f.ident, f.ty.text));
                        "Default::default()".into()
                    }
                }
            };
            let e = match f.ty.wrapper {
                Wrapper::Bare => e,
                Wrapper::Option => format!("Some({e})"),
                Wrapper::Vec => format!("vec![{e}]"),
            };
            fields.push(format!("{}: {e}", f.ident));
        }
        format!("{} {{ {} }}", self.rust_path(st), fields.join(", "))
    }

    /// alternatives for ONE occurrence of a member: (expr, element-content)
    fn item_alternatives(&mut self, m: &ExpMember) -> Vec<(String, Content)> {
        if let Some(ov) = self.overrides {
            if let Some((text, lex)) = ov(&format!("{}::{}", self.cur_comp, m.wire)) {
                match &m.ty {
                    ExpTy::Builtin(r, _) if r == "String" => return vec![(format!("{text:?}.to_string()"), Content::Text(lex))],
                    ExpTy::Named(ns, local) => {
                        if let (Some(c), Some(st)) = (self.model.comp(ns, local, true).cloned(), find_struct(self.ex, ns, local).first().copied()) {
                            if c.kind == CompKind::Simple {
                                let e = self.simple_struct_expr(st, &text, 0);
                                return vec![(e, Content::Text(lex))];
                            }
                        }
                    }
                    // a ref= to a global element that is of a simple type (its alias names that type's struct)
                    ExpTy::ElemRef(ns, local) => {
                        let target = self.model.comps.iter().find(|c| c.ns == *ns && c.name == *local && c.kind == CompKind::TypedElement).cloned();
                        if let Some(ExpTy::Named(tns, tl)) = target.and_then(|t| t.alias_of) {
                            if let (Some(c), Some(st)) = (self.model.comp(&tns, &tl, true).cloned(), find_struct(self.ex, &tns, &tl).first().copied()) {
                                if c.kind == CompKind::Simple {
                                    let e = self.simple_struct_expr(st, &text, 0);
                                    return vec![(e, Content::Text(lex))];
                                }
                            }
                        }
                    }
                    _ => {}
                }
            }
        }
        match &m.ty {
            ExpTy::Builtin(r, x) => builtin_alternatives(r, x).into_iter().map(|(e, l)| (e, Content::Text(l))).collect(),
            ExpTy::Named(ns, local) => self.named_type_alternatives(ns, local),
            ExpTy::ElemRef(ns, local) => {
                let target = self.model.comps.iter().find(|c| c.ns == *ns && c.name == *local && matches!(c.kind, CompKind::AnonElement | CompKind::TypedElement)).cloned();
                match target {
                    Some(t) if t.kind == CompKind::AnonElement => match find_struct(self.ex, ns, local).first() {
                        Some(st) => {
                            self.depth += 1;
                            let r = self.struct_value(&t, st);
                            self.depth -= 1;
                            vec![(r.0, Content::Node(r.1))]
                        }
                        None => vec![],
                    },
                    Some(t) => match &t.alias_of {
                        Some(ExpTy::Builtin(r, x)) => builtin_alternatives(r, x).into_iter().map(|(e, l)| (e, Content::Text(l))).collect(),
                        Some(ExpTy::Named(tns, tl)) => self.named_type_alternatives(tns, tl),
                        _ => vec![],
                    },
                    None => vec![],
                }
            }
            ExpTy::Unresolvable(_) => vec![],
        }
    }

    fn named_type_alternatives(&mut self, ns: &str, local: &str) -> Vec<(String, Content)> {
        let Some(comp) = self.model.comp(ns, local, true).cloned() else { return vec![] };
        let Some(st) = find_struct(self.ex, ns, local).first().copied() else { return vec![] };
        match comp.kind {
            CompKind::Simple => {
                let t = simple_text(local);
                let e = self.simple_struct_expr(st, t, 0);
                vec![(e, Content::Text(Lex::Str(t.to_string())))]
            }
            _ => {
                self.depth += 1;
                let r = self.struct_value(&comp, st);
                self.depth -= 1;
                vec![(r.0, Content::Node(r.1))]
            }
        }
    }

    /// like `struct_value`, but as a nested value: no decision points, optionals present
    pub fn struct_value_nested(&mut self, comp: &ExpComp, st: &StructInfo) -> (String, ExpElem) {
        self.depth += 1;
        let r = self.struct_value(comp, st);
        self.depth -= 1;
        r
    }

    /// complete struct literal + expected element for a complex component
    pub fn struct_value(&mut self, comp: &ExpComp, st: &StructInfo) -> (String, ExpElem) {
        let mut root = ExpElem::new(Some(&comp.ns), &comp.name);
        root.judge_name = comp.kind == CompKind::AnonElement;
        root.tag = "root".into();
        if self.depth > 4 {
            self.problems.push("type nesting deeper than 4".into());
            return ("Default::default()".into(), root);
        }
        let wire_of = |f: &crate::extract::FieldInfo| f.ya.rename.clone().unwrap_or_else(|| f.bare_ident.clone());
        let saved_comp = std::mem::replace(&mut self.cur_comp, comp.name.clone());
        let mut field_exprs: Vec<(usize, String)> = vec![];
        // iterate in the reference's member order (= wire order); struct literal order is irrelevant
        let mut used = vec![false; st.fields.len()];
        for m in &comp.members {
            let Some(fi) = st.fields.iter().enumerate().position(|(i, f)| !used[i] && wire_of(f) == m.wire) else {
                self.problems.push(format!("member {} has no field in {}", m.wire, st.name));
                continue;
            };
            used[fi] = true;
            let f = &st.fields[fi];
            let alts = self.item_alternatives(m);
            if alts.is_empty() {
                self.problems.push(format!("no value alternatives for member {} of {}", m.wire, st.name));
                field_exprs.push((fi, format!("{}: Default::default()", f.ident)));
                continue;
            }
            let tag = format!("{}:{}:{}", m.kind, m.position, m.origin);
            let mk_elem = |c: &Content, m: &ExpMember| -> ExpElem {
                let mut e = match c {
                    Content::Text(l) => {
                        let mut e = ExpElem::new(m.ns.as_deref(), &m.wire);
                        e.text = Some(l.clone());
                        e
                    }
                    Content::Node(n) => {
                        let mut e = n.clone();
                        e.ns = m.ns.clone();
                        e.local = m.wire.clone();
                        e.judge_name = true;
                        e
                    }
                };
                e.tag = tag.clone();
                e
            };
            // the wrapper is taken from the ACTUAL field (the API oracle has judged it already)
            let expr = match f.ty.wrapper {
                Wrapper::Bare => {
                    let k = self.pick(alts.len());
                    let (e, c) = &alts[k];
                    if m.is_attr {
                        if let Content::Text(l) = c {
                            root.attrs.push((m.wire.clone(), l.clone()));
                        }
                    } else {
                        root.children.push(mk_elem(c, m));
                    }
                    e.clone()
                }
                Wrapper::Option => {
                    let k = self.pick(alts.len() + 1);
                    // depth>0 default: present (so nested values are not all empty)
                    let k = if self.depth > 0 { 1 } else { k };
                    if k == 0 {
                        "None".to_string()
                    } else {
                        let (e, c) = &alts[k - 1];
                        if m.is_attr {
                            if let Content::Text(l) = c {
                                root.attrs.push((m.wire.clone(), l.clone()));
                            }
                        } else {
                            root.children.push(mk_elem(c, m));
                        }
                        format!("Some({e})")
                    }
                }
                Wrapper::Vec => {
                    let k = self.pick(3);
                    let k = if self.depth > 0 { 1 } else { k };
                    let mut n = [0usize, 1, 3][k];
                    // per-item overrides "<Comp>::<wire>#<j>" decide the number of items
                    let mut per_item: Vec<(String, Content)> = vec![];
                    if let Some(ov) = self.overrides {
                        let mut j = 0;
                        while let Some((text, lex)) = ov(&format!("{}::{}#{j}", self.cur_comp, m.wire)) {
                            let one = match &m.ty {
                                ExpTy::Named(ns, local) => match (self.model.comp(ns, local, true).cloned(), find_struct(self.ex, ns, local).first().copied()) {
                                    (Some(c), Some(st)) if c.kind == CompKind::Simple => Some((self.simple_struct_expr(st, &text, 0), Content::Text(lex))),
                                    _ => None,
                                },
                                ExpTy::Builtin(r, _) if r == "String" => Some((format!("{text:?}.to_string()"), Content::Text(lex))),
                                _ => None,
                            };
                            match one {
                                Some(o) => per_item.push(o),
                                None => break,
                            }
                            j += 1;
                            if j > 8 {
                                break;
                            }
                        }
                    }
                    if !per_item.is_empty() {
                        n = per_item.len();
                    }
                    let alts = if per_item.is_empty() { alts } else { per_item };
                    let mut items = vec![];
                    for j in 0..n {
                        let (e, c) = &alts[j % alts.len()];
                        items.push(e.clone());
                        if !m.is_attr {
                            root.children.push(mk_elem(c, m));
                        }
                    }
                    format!("vec![{}]", items.join(", "))
                }
            };
            field_exprs.push((fi, format!("{}: {expr}", f.ident)));
        }
        for (i, f) in st.fields.iter().enumerate() {
            if !used[i] {
                self.problems.push(format!("field {} of {} has no member", f.ident, st.name));
                field_exprs.push((i, format!("{}: Default::default()", f.ident)));
            }
        }
        self.cur_comp = saved_comp;
        field_exprs.sort_by_key(|x| x.0);
        // attributes first on the wire does not matter (attribute order is not significant)
        (format!("{} {{ {} }}", self.rust_path(st), field_exprs.into_iter().map(|x| x.1).collect::<Vec<_>>().join(", ")), root)
    }
}

#[derive(Clone, Debug)]
pub enum Content {
    Text(Lex),
    Node(ExpElem),
}

pub struct BuiltValue {
    pub choices: Vec<usize>,
    pub expr: String,
    pub expected: ExpElem,
}

/// all values of `comp` over the product of its top-level members' alternatives, capped.
/// The first values vary one member at a time (every alternative of every member occurs).
pub fn all_values(ex: &Extract, model: &RefModel, comp: &ExpComp, st: &StructInfo, cap: usize) -> (Vec<BuiltValue>, Vec<String>, bool) {
    all_values_rooted(ex, model, comp, st, cap, "zg")
}

pub fn all_values_rooted(ex: &Extract, model: &RefModel, comp: &ExpComp, st: &StructInfo, cap: usize, root: &'static str) -> (Vec<BuiltValue>, Vec<String>, bool) {
    let mut g = Gen::new(ex, model, vec![]);
    g.root = root;
    let first = g.struct_value(comp, st);
    let arities = g.arities.clone();
    let problems = g.problems.clone();
    let mut out = vec![BuiltValue { choices: vec![0; arities.len()], expr: first.0, expected: first.1 }];
    let mut seen: std::collections::BTreeSet<Vec<usize>> = std::collections::BTreeSet::new();
    seen.insert(vec![0; arities.len()]);
    let mut todo: Vec<Vec<usize>> = vec![];
    // singles
    for (i, a) in arities.iter().enumerate() {
        for k in 1..*a {
            let mut c = vec![0; arities.len()];
            c[i] = k;
            todo.push(c);
        }
    }
    // full product (odometer)
    let total: usize = arities.iter().product::<usize>().max(1);
    let mut capped = false;
    if total <= 4096 {
        let mut c = vec![0; arities.len()];
        loop {
            todo.push(c.clone());
            let mut i = 0;
            while i < c.len() {
                c[i] += 1;
                if c[i] < arities[i] {
                    break;
                }
                c[i] = 0;
                i += 1;
            }
            if i == c.len() {
                break;
            }
        }
    } else {
        capped = true;
    }
    for c in todo {
        if out.len() >= cap {
            capped = true;
            break;
        }
        if !seen.insert(c.clone()) {
            continue;
        }
        let mut g = Gen::new(ex, model, c.clone());
        g.root = root;
        let v = g.struct_value(comp, st);
        out.push(BuiltValue { choices: c, expr: v.0, expected: v.1 });
    }
    (out, problems, capped)
}

pub fn value_for_choices(ex: &Extract, model: &RefModel, comp: &ExpComp, st: &StructInfo, choices: &[usize], root: &'static str) -> (BuiltValue, Vec<String>) {
    let mut g = Gen::new(ex, model, choices.to_vec());
    g.root = root;
    let v = g.struct_value(comp, st);
    (BuiltValue { choices: choices.to_vec(), expr: v.0, expected: v.1 }, g.problems)
}
