//! E3: running the real zeep-lib. In-process (panic caught) and through supervised worker
//! sub-processes (abort / stack overflow / hang become observations, never a harness crash).

use serde::{Deserialize, Serialize};
use std::collections::BTreeMap;
use std::io::{BufRead, BufReader, Write};
use std::panic::{catch_unwind, AssertUnwindSafe};
use std::process::{Child, ChildStdin, Command, Stdio};
use std::sync::mpsc;
use std::sync::{Arc, Mutex};
use std::time::{Duration, Instant};
use zeep_lib::reader::{Files, FilesToRead, WriteXml, XmlReader};

/// One generator run: a set of sibling files (name -> text), a start file and the order in which
/// the files are registered through `Files::new/add`.
#[derive(Clone, Debug, Serialize, Deserialize, PartialEq, Eq, Hash)]
pub struct Case {
    pub files: Vec<(String, String)>,
    pub start: String,
}

impl Case {
    pub fn new(files: Vec<(String, String)>, start: &str) -> Self {
        Case { files, start: start.to_string() }
    }
    pub fn single(name: &str, text: &str) -> Self {
        Case { files: vec![(name.to_string(), text.to_string())], start: name.to_string() }
    }
    pub fn total_len(&self) -> usize {
        self.files.iter().map(|(_, t)| t.len()).sum()
    }
}

#[derive(Clone, Debug, Serialize, Deserialize, PartialEq, Eq)]
pub enum Outcome {
    /// read_xml and write_xml both returned Ok; the emitted text.
    Ok(String),
    /// one of them returned Err (phase, Display of the error)
    Err { phase: String, msg: String },
    Panic { phase: String, msg: String, location: String },
    /// worker died by signal / exit code while this case was in flight
    Abort { detail: String },
    Timeout { limit_ms: u64 },
}

impl Outcome {
    pub fn class(&self) -> &'static str {
        match self {
            Outcome::Ok(_) => "ok",
            Outcome::Err { .. } => "err",
            Outcome::Panic { .. } => "panic",
            Outcome::Abort { .. } => "abort",
            Outcome::Timeout { .. } => "timeout",
        }
    }
    pub fn text(&self) -> Option<&str> {
        match self {
            Outcome::Ok(s) => Some(s),
            _ => None,
        }
    }
    pub fn brief(&self) -> String {
        match self {
            Outcome::Ok(s) => format!("ok({} bytes)", s.len()),
            Outcome::Err { phase, msg } => format!("err[{phase}]: {msg}"),
            Outcome::Panic { phase, msg, location } => format!("panic[{phase}] at {location}: {msg}"),
            Outcome::Abort { detail } => format!("abort: {detail}"),
            Outcome::Timeout { limit_ms } => format!("timeout after {limit_ms} ms"),
        }
    }
}

thread_local! {
    static LAST_PANIC_LOC: std::cell::RefCell<String> = const { std::cell::RefCell::new(String::new()) };
}

/// Install a panic hook that records the location (thread-local) and stays silent.
pub fn install_quiet_panic_hook() {
    std::panic::set_hook(Box::new(|info| {
        let loc = info
            .location()
            .map(|l| format!("{}:{}", l.file(), l.line()))
            .unwrap_or_else(|| "?".to_string());
        LAST_PANIC_LOC.with(|c| *c.borrow_mut() = loc);
    }));
}

pub fn last_panic_location() -> String {
    LAST_PANIC_LOC.with(|c| c.borrow().clone())
}

fn panic_msg(e: Box<dyn std::any::Any + Send>) -> String {
    if let Some(s) = e.downcast_ref::<&str>() {
        (*s).to_string()
    } else if let Some(s) = e.downcast_ref::<String>() {
        s.clone()
    } else {
        "<non-string panic>".to_string()
    }
}

pub fn build_files(case: &Case) -> Option<FilesToRead> {
    let mut it = case.files.iter();
    let (n0, t0) = it.next()?;
    let mut files = Files::new(n0, t0);
    for (n, t) in it {
        files.add(n, t);
    }
    Some(FilesToRead::new(&case.start, files))
}

/// Run read_xml + write_xml on the real library in this process, catching panics.
pub fn run_inproc(case: &Case) -> Outcome {
    let ftr = match build_files(case) {
        Some(f) => f,
        None => return Outcome::Err { phase: "setup".into(), msg: "no files".into() },
    };
    run_on(&ftr)
}

pub fn run_on(ftr: &FilesToRead) -> Outcome {
    let r = catch_unwind(AssertUnwindSafe(|| XmlReader::read_xml(ftr)));
    let doc = match r {
        Err(e) => {
            return Outcome::Panic { phase: "read".into(), msg: panic_msg(e), location: last_panic_location() }
        }
        Ok(Err(e)) => return Outcome::Err { phase: "read".into(), msg: e.to_string() },
        Ok(Ok(d)) => d,
    };
    let mut buf: Vec<u8> = Vec::new();
    let r = catch_unwind(AssertUnwindSafe(|| doc.write_xml(&mut buf)));
    match r {
        Err(e) => Outcome::Panic { phase: "write".into(), msg: panic_msg(e), location: last_panic_location() },
        Ok(Err(e)) => Outcome::Err { phase: "write".into(), msg: e.to_string() },
        Ok(Ok(())) => match String::from_utf8(buf) {
            Ok(s) => Outcome::Ok(s),
            Err(_) => Outcome::Err { phase: "write".into(), msg: "output is not UTF-8".into() },
        },
    }
}

// ------------------------------------------------------------------------------------------------
// Worker protocol: parent sends one JSON line per request, worker answers one JSON line.

#[derive(Serialize, Deserialize, Debug, Clone)]
pub enum Request {
    Run { case: Case, small_stack: bool, want_text: bool },
}

#[derive(Serialize, Deserialize, Debug, Clone)]
pub struct Reply {
    pub outcome: Outcome,
    pub micros: u64,
}

/// Entry point of `zv worker`.
pub fn worker_main() {
    install_quiet_panic_hook();
    let stdin = std::io::stdin();
    let stdout = std::io::stdout();
    let mut out = stdout.lock();
    for line in stdin.lock().lines() {
        let Ok(line) = line else { break };
        if line.is_empty() {
            continue;
        }
        let req: Request = match serde_json::from_str(&line) {
            Ok(r) => r,
            Err(e) => {
                eprintln!("worker: bad request: {e}");
                std::process::exit(3);
            }
        };
        let t0 = Instant::now();
        let reply = match req {
            Request::Run { case, small_stack, want_text } => {
                let mut outcome = if small_stack {
                    // a tiny stack makes an unbounded recursion die in a millisecond
                    let c = case.clone();
                    let h = std::thread::Builder::new()
                        .stack_size(768 * 1024)
                        .spawn(move || {
                            install_quiet_panic_hook();
                            run_inproc(&c)
                        })
                        .expect("spawn");
                    h.join().unwrap_or(Outcome::Abort { detail: "thread join failed".into() })
                } else {
                    run_inproc(&case)
                };
                if !want_text {
                    if let Outcome::Ok(s) = &outcome {
                        outcome = Outcome::Ok(summarize(s));
                    }
                }
                Reply { outcome, micros: t0.elapsed().as_micros() as u64 }
            }
        };
        let s = serde_json::to_string(&reply).expect("ser");
        if writeln!(out, "{s}").is_err() || out.flush().is_err() {
            break;
        }
    }
}

/// compact summary of an emitted file: length, 128-bit hash, names following the `struct` keyword
pub fn summarize(text: &str) -> String {
    let mut names: Vec<String> = vec![];
    let mut it = text.split_whitespace().peekable();
    while let Some(tok) = it.next() {
        if tok == "struct" {
            if let Some(n) = it.peek() {
                let id: String = n.chars().take_while(|c| c.is_alphanumeric() || *c == '_').collect();
                names.push(id);
            }
        }
    }
    serde_json::json!({"len": text.len(), "hash": crate::report::hash128(text.as_bytes()), "structs": names}).to_string()
}

struct Worker {
    child: Child,
    stdin: ChildStdin,
    rx: mpsc::Receiver<Option<String>>,
}

impl Worker {
    fn spawn(env: &BTreeMap<String, String>) -> Worker {
        let exe = std::env::current_exe().expect("current_exe");
        let mut cmd = Command::new(exe);
        cmd.arg("worker").stdin(Stdio::piped()).stdout(Stdio::piped()).stderr(Stdio::null());
        for (k, v) in env {
            cmd.env(k, v);
        }
        let mut child = cmd.spawn().expect("spawn worker");
        let stdin = child.stdin.take().unwrap();
        let stdout = child.stdout.take().unwrap();
        let (tx, rx) = mpsc::channel();
        std::thread::spawn(move || {
            let mut r = BufReader::new(stdout);
            loop {
                let mut line = String::new();
                match r.read_line(&mut line) {
                    Ok(0) | Err(_) => {
                        let _ = tx.send(None);
                        break;
                    }
                    Ok(_) => {
                        if tx.send(Some(line)).is_err() {
                            break;
                        }
                    }
                }
            }
        });
        Worker { child, stdin, rx }
    }

    fn kill(mut self) -> String {
        let _ = self.child.kill();
        match self.child.wait() {
            Ok(st) => {
                use std::os::unix::process::ExitStatusExt;
                if let Some(sig) = st.signal() {
                    format!("signal {sig}")
                } else {
                    format!("exit {:?}", st.code())
                }
            }
            Err(e) => format!("wait failed: {e}"),
        }
    }

    fn died(mut self) -> String {
        match self.child.wait() {
            Ok(st) => {
                use std::os::unix::process::ExitStatusExt;
                if let Some(sig) = st.signal() {
                    format!("signal {sig}")
                } else {
                    format!("exit {:?}", st.code())
                }
            }
            Err(e) => format!("wait failed: {e}"),
        }
    }
}

pub fn time_limit_ms(case: &Case) -> u64 {
    10_000 + (case.total_len() as u64 / 100_000) * 1_000
}

/// A pool of supervised workers. `run_all` keeps the order of the inputs.
pub struct Pool {
    pub workers: usize,
    pub env: BTreeMap<String, String>,
    pub small_stack: bool,
    pub want_text: bool,
}

impl Pool {
    pub fn new() -> Pool {
        let n = std::thread::available_parallelism().map(|n| n.get()).unwrap_or(4);
        Pool { workers: n, env: BTreeMap::new(), small_stack: false, want_text: true }
    }

    pub fn run_all(&self, cases: &[Case]) -> Vec<(Outcome, u64)> {
        let n = cases.len();
        let results: Arc<Mutex<Vec<Option<(Outcome, u64)>>>> = Arc::new(Mutex::new(vec![None; n]));
        let next = Arc::new(std::sync::atomic::AtomicUsize::new(0));
        let nworkers = self.workers.min(n.max(1));
        std::thread::scope(|s| {
            for _ in 0..nworkers {
                let results = results.clone();
                let next = next.clone();
                s.spawn(move || {
                    let mut w: Option<Worker> = None;
                    loop {
                        let i = next.fetch_add(1, std::sync::atomic::Ordering::SeqCst);
                        if i >= n {
                            break;
                        }
                        let case = &cases[i];
                        if w.is_none() {
                            w = Some(Worker::spawn(&self.env));
                        }
                        let req = Request::Run {
                            case: case.clone(),
                            small_stack: self.small_stack,
                            want_text: self.want_text,
                        };
                        let line = serde_json::to_string(&req).unwrap();
                        let limit = time_limit_ms(case);
                        let res = {
                            let wk = w.as_mut().unwrap();
                            let sent = writeln!(wk.stdin, "{line}").and_then(|_| wk.stdin.flush());
                            if sent.is_err() {
                                Err(true)
                            } else {
                                match wk.rx.recv_timeout(Duration::from_millis(limit)) {
                                    Ok(Some(l)) => match serde_json::from_str::<Reply>(&l) {
                                        Ok(r) => Ok((r.outcome, r.micros)),
                                        Err(_) => Err(true),
                                    },
                                    Ok(None) => Err(true),
                                    Err(mpsc::RecvTimeoutError::Timeout) => Err(false),
                                    Err(mpsc::RecvTimeoutError::Disconnected) => Err(true),
                                }
                            }
                        };
                        let r = match res {
                            Ok(r) => r,
                            Err(true) => {
                                let d = w.take().unwrap().died();
                                (Outcome::Abort { detail: d }, 0)
                            }
                            Err(false) => {
                                let _ = w.take().unwrap().kill();
                                (Outcome::Timeout { limit_ms: limit }, limit * 1000)
                            }
                        };
                        results.lock().unwrap()[i] = Some(r);
                    }
                    if let Some(wk) = w {
                        drop(wk.stdin);
                        let mut c = wk.child;
                        let _ = c.wait();
                    }
                });
            }
        });
        let v = Arc::try_unwrap(results).unwrap().into_inner().unwrap();
        v.into_iter().map(|o| o.expect("all cases answered")).collect()
    }
}
