//! SOAP view of an emitted file (discovered, never assumed): service struct, client methods,
//! free-standing operation functions, envelope / header / body structs; the expected operations
//! from the WSDL; envelope values (literal + expected SOAP 1.1 infoset).

use crate::extract::{norm, Extract, FieldInfo, FnInfo, ResolvedType, StructInfo, Wrapper};
use crate::reference::{find_struct, CompKind, ExpComp, RefModel};
use crate::schema::*;
use crate::valgen::Gen;
use crate::wire::ExpElem;

#[derive(Clone, Debug)]
pub struct ExpEnvelope {
    /// header elements (ns, local) in binding order, with the part name
    pub headers: Vec<(String, String, String)>,
    pub body: (String, String),
    pub body_part: String,
}

#[derive(Clone, Debug)]
pub struct ExpOp {
    pub name: String,
    pub action: Option<String>,
    pub input: ExpEnvelope,
    pub output: Option<ExpEnvelope>,
}

fn exp_envelope(w: &Wsdl, msg_name: &str, bio: &BIo) -> Option<ExpEnvelope> {
    let msg = w.messages.iter().find(|m| m.name == msg_name)?;
    let mut headers = vec![];
    for (hm, hp) in &bio.headers {
        let m = w.messages.iter().find(|m| m.name == *hm)?;
        let p = m.parts.iter().find(|p| p.name == *hp)?;
        headers.push((p.element.ns.clone(), p.element.local.clone(), p.name.clone()));
    }
    let body_part = match &bio.parts {
        Some(p) => msg.parts.iter().find(|x| x.name == *p)?,
        None => msg.parts.iter().find(|x| !bio.headers.iter().any(|(hm, hp)| hm == msg_name && *hp == x.name))?,
    };
    Some(ExpEnvelope { headers, body: (body_part.element.ns.clone(), body_part.element.local.clone()), body_part: body_part.name.clone() })
}

pub fn expected_ops(set: &SchemaSet) -> Vec<ExpOp> {
    let Some(w) = &set.wsdl else { return vec![] };
    let mut out = vec![];
    for b in &w.b_ops {
        let Some(pt) = w.pt_ops.iter().find(|p| p.name == b.name) else { continue };
        let Some(input) = exp_envelope(w, &pt.input, &b.input) else { continue };
        let output = match (&pt.output, &b.output) {
            (Some(m), Some(bio)) => exp_envelope(w, m, bio),
            _ => None,
        };
        out.push(ExpOp { name: b.name.clone(), action: b.action.clone(), input, output });
    }
    out
}

pub struct EnvParts<'a> {
    pub env: &'a StructInfo,
    pub header: Option<(&'a FieldInfo, &'a StructInfo)>,
    pub body: Option<(&'a FieldInfo, &'a StructInfo)>,
}

fn is_soapenv(s: &StructInfo, prefix: Option<&str>) -> bool {
    prefix.and_then(|p| s.prefix_uri(p)) == Some(SOAPENV)
}

pub fn envelope_parts<'a>(ex: &'a Extract, env: &'a StructInfo) -> EnvParts<'a> {
    let mut header = None;
    let mut body = None;
    for f in &env.fields {
        let Some(r) = f.ya.rename.as_deref() else { continue };
        if !is_soapenv(env, f.ya.prefix.as_deref()) {
            continue;
        }
        if let ResolvedType::Struct(s) = ex.resolve_type(&env.module, &f.ty) {
            match r {
                "Header" => header = Some((f, s)),
                "Body" => body = Some((f, s)),
                _ => {}
            }
        }
    }
    EnvParts { env, header, body }
}

pub fn is_envelope(s: &StructInfo) -> bool {
    s.ya.rename.as_deref() == Some("Envelope") && is_soapenv(s, s.ya.prefix.as_deref())
}

pub struct ClientFn<'a> {
    pub f: &'a FnInfo,
    pub req: Option<&'a StructInfo>,
    /// response envelope (None for `SoapResult<()>`)
    pub resp: Option<&'a StructInfo>,
    pub ret_text: String,
}

pub struct SoapView<'a> {
    /// (service struct, its async methods)
    pub services: Vec<(&'a StructInfo, Vec<ClientFn<'a>>)>,
    pub free_fns: Vec<ClientFn<'a>>,
    pub envelopes: Vec<&'a StructInfo>,
}

fn client_fn<'a>(ex: &'a Extract, f: &'a FnInfo) -> ClientFn<'a> {
    let req = f.args.iter().find_map(|(_, t)| match ex.resolve_type(&f.module, t) {
        ResolvedType::Struct(s) if is_envelope(s) => Some(s),
        _ => None,
    });
    let (resp, ret_text) = match &f.ret {
        Some(r) => {
            let inner = r.generic.as_deref();
            let resp = inner.and_then(|g| match ex.resolve_type(&f.module, g) {
                ResolvedType::Struct(s) if is_envelope(s) => Some(s),
                _ => None,
            });
            (resp, r.text.clone())
        }
        None => (None, String::new()),
    };
    ClientFn { f, req, resp, ret_text }
}

pub fn discover(ex: &Extract) -> SoapView<'_> {
    let envelopes: Vec<&StructInfo> = ex.structs.iter().filter(|s| is_envelope(s)).collect();
    let mut services = vec![];
    for s in ex.structs.iter().filter(|s| s.module.is_empty()) {
        let methods: Vec<ClientFn> = ex.fns.iter().filter(|f| f.impl_of.as_deref() == Some(&s.name) && f.trait_of.is_none() && f.is_async && f.has_self && f.module == s.module).map(|f| client_fn(ex, f)).collect();
        if !methods.is_empty() {
            services.push((s, methods));
        }
    }
    let free_fns: Vec<ClientFn> = ex.fns.iter().filter(|f| f.impl_of.is_none() && f.is_async && f.module.is_empty() && !f.has_self).map(|f| client_fn(ex, f)).filter(|c| c.req.is_some()).collect();
    SoapView { services, free_fns, envelopes }
}

/// find the client fn of an operation among `fns` (name up to case and separators)
pub fn fn_for_op<'a, 'b>(fns: &'b [ClientFn<'a>], op: &str) -> Vec<&'b ClientFn<'a>> {
    fns.iter().filter(|c| norm(&c.f.name) == norm(op)).collect()
}

/// the component a struct was generated for (by the namespace it declares and its wire name)
pub fn comp_of_struct<'m>(model: &'m RefModel, s: &StructInfo) -> Option<&'m ExpComp> {
    let ns = s.ns_uri()?;
    let name = s.ya.rename.clone().unwrap_or_else(|| s.name.clone());
    model.comps.iter().find(|c| c.ns == ns && (c.name == name || norm(&c.name) == norm(&s.name)) && c.kind != CompKind::TypedElement)
}

pub struct EnvValue {
    pub expr: String,
    pub expected: ExpElem,
    pub problems: Vec<String>,
}

/// literal + expected infoset of an envelope. The literal is built from the TYPES of the
/// extracted structs (so naming defects cannot prevent it); the expected infoset from the WSDL.
/// `present_headers`: build header members as Some(..) (true) or None (false).
/// `tweak`: called for every (struct path, field ident) to allow overriding a leaf expression.
pub fn envelope_value(ex: &Extract, model: &RefModel, env: &StructInfo, exp: &ExpEnvelope, present_headers: bool, overrides: &dyn Fn(&str) -> Option<(String, crate::wire::Lex)>) -> EnvValue {
    let mut problems = vec![];
    let parts = envelope_parts(ex, env);
    let mut root = ExpElem::new(Some(SOAPENV), "Envelope");
    root.tag = "envelope".into();
    let mut env_fields: Vec<String> = vec![];
    // value of the struct generated for a global element
    let mut elem_value = |ns: &str, local: &str, problems: &mut Vec<String>| -> Option<(String, ExpElem)> {
        let comp = model.comps.iter().find(|c| c.ns == ns && c.name == local && c.kind == CompKind::AnonElement)?;
        let st = find_struct(ex, ns, local).first().copied()?;
        let mut g = Gen::new(ex, model, vec![]);
        g.overrides = Some(overrides);
        // depth 1: defaults (optionals present) everywhere
        let (e, mut x) = g.struct_value_nested(comp, st);
        problems.extend(g.problems);
        x.judge_name = true;
        x.ns = Some(ns.to_string());
        x.local = local.to_string();
        Some((e, x))
    };
    // expected: Header
    if !exp.headers.is_empty() {
        let mut h = ExpElem::new(Some(SOAPENV), "Header");
        h.tag = "header".into();
        if present_headers {
            for (ns, local, _part) in &exp.headers {
                if let Some((_, mut x)) = elem_value(ns, local, &mut problems) {
                    x.tag = "header-part".into();
                    h.children.push(x);
                }
            }
        }
        root.children.push(h);
    }
    let mut b = ExpElem::new(Some(SOAPENV), "Body");
    b.tag = "body".into();
    if let Some((_, mut x)) = elem_value(&exp.body.0, &exp.body.1, &mut problems) {
        x.tag = "body-part".into();
        b.children.push(x);
    } else {
        problems.push(format!("no value for body element {{{}}}{}", exp.body.0, exp.body.1));
    }
    root.children.push(b);
    // literal: from the struct types
    let mut struct_literal = |s: &StructInfo, present: bool, problems: &mut Vec<String>| -> String {
        let mut fs = vec![];
        for f in &s.fields {
            let inner = match ex.resolve_type(&s.module, &f.ty) {
                ResolvedType::Struct(t) => match comp_of_struct(model, t) {
                    Some(c) if c.kind != CompKind::Simple => {
                        let mut g = Gen::new(ex, model, vec![]);
                        g.overrides = Some(overrides);
                        let (e, _) = g.struct_value_nested(c, t);
                        problems.extend(g.problems);
                        e
                    }
                    _ => {
                        problems.push(format!("field {} of {} has a type that is not a component struct", f.ident, s.name));
                        "Default::default()".to_string()
                    }
                },
                _ => {
                    problems.push(format!("field {} of {} is not struct-typed ({})", f.ident, s.name, f.ty.text));
                    "Default::default()".to_string()
                }
            };
            let e = match f.ty.wrapper {
                Wrapper::Bare => inner,
                Wrapper::Option => {
                    if present {
                        format!("Some({inner})")
                    } else {
                        "None".into()
                    }
                }
                Wrapper::Vec => format!("vec![{inner}]"),
            };
            fs.push(format!("{}: {e}", f.ident));
        }
        format!("zg::{} {{ {} }}", s.path().join("::"), fs.join(", "))
    };
    for f in &env.fields {
        if let Some((hf, hs)) = parts.header {
            if std::ptr::eq(hf, f) {
                env_fields.push(format!("{}: {}", f.ident, struct_literal(hs, present_headers, &mut problems)));
                continue;
            }
        }
        if let Some((bf, bs)) = parts.body {
            if std::ptr::eq(bf, f) {
                env_fields.push(format!("{}: {}", f.ident, struct_literal(bs, true, &mut problems)));
                continue;
            }
        }
        problems.push(format!("envelope {} has an unexpected field {}", env.name, f.ident));
        env_fields.push(format!("{}: Default::default()", f.ident));
    }
    if parts.body.is_none() {
        problems.push(format!("envelope {} has no soapenv:Body member", env.name));
    }
    EnvValue { expr: format!("zg::{} {{ {} }}", env.path().join("::"), env_fields.join(", ")), expected: root, problems }
}
