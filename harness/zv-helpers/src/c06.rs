//! C06: `check_restrictions` on a simple value succeeds iff the value satisfies every supported
//! facet. Complete enumeration of the finite (carrier, value, restriction set) domain of DESIGN §4
//! against a reference verdict computed in i128 arithmetic / char counts / set membership.

use crate::hc::restrictions::{CheckRestrictions, Restrictions};
use crate::report::{Report, Violation};
use serde_json::{json, Value};
use std::collections::BTreeMap;
use std::rc::Rc;

const B: [i32; 8] = [i32::MIN, -129, -1, 0, 1, 127, 256, i32::MAX];

#[derive(Clone, Copy, Debug, PartialEq, Eq)]
struct NumFacets {
    min_inc: Option<i32>,
    max_inc: Option<i32>,
    min_exc: Option<i32>,
    max_exc: Option<i32>,
}

impl NumFacets {
    fn none() -> Self {
        NumFacets { min_inc: None, max_inc: None, min_exc: None, max_exc: None }
    }
    fn count(&self) -> usize {
        [self.min_inc, self.max_inc, self.min_exc, self.max_exc].iter().filter(|x| x.is_some()).count()
    }
    fn any(&self) -> bool {
        self.count() > 0
    }
    /// reference verdict, XSD semantics, arbitrary-width comparison
    fn valid(&self, v: i128) -> bool {
        self.min_inc.map_or(true, |b| v >= b as i128)
            && self.max_inc.map_or(true, |b| v <= b as i128)
            && self.min_exc.map_or(true, |b| v > b as i128)
            && self.max_exc.map_or(true, |b| v < b as i128)
    }
    fn names(&self) -> Vec<&'static str> {
        let mut n = vec![];
        if self.min_inc.is_some() {
            n.push("minInclusive");
        }
        if self.max_inc.is_some() {
            n.push("maxInclusive");
        }
        if self.min_exc.is_some() {
            n.push("minExclusive");
        }
        if self.max_exc.is_some() {
            n.push("maxExclusive");
        }
        n
    }
    fn relations(&self, v: i128) -> String {
        let rel = |b: i32| {
            if v < b as i128 {
                "below"
            } else if v == b as i128 {
                "at"
            } else {
                "above"
            }
        };
        let mut parts = vec![];
        if let Some(b) = self.min_inc {
            parts.push(format!("minInclusive:{}", rel(b)));
        }
        if let Some(b) = self.max_inc {
            parts.push(format!("maxInclusive:{}", rel(b)));
        }
        if let Some(b) = self.min_exc {
            parts.push(format!("minExclusive:{}", rel(b)));
        }
        if let Some(b) = self.max_exc {
            parts.push(format!("maxExclusive:{}", rel(b)));
        }
        parts.join(",")
    }
    fn json(&self) -> Value {
        json!({"minInclusive": self.min_inc, "maxInclusive": self.max_inc, "minExclusive": self.min_exc, "maxExclusive": self.max_exc})
    }
    fn from_json(v: &Value) -> Self {
        let g = |k: &str| v.get(k).and_then(|x| x.as_i64()).map(|x| x as i32);
        NumFacets { min_inc: g("minInclusive"), max_inc: g("maxInclusive"), min_exc: g("minExclusive"), max_exc: g("maxExclusive") }
    }
}

#[derive(Clone, Debug, PartialEq, Eq)]
struct StrFacets {
    length: Option<usize>,
    min_length: Option<usize>,
    max_length: Option<usize>,
    enumeration: Option<Vec<String>>,
}

impl StrFacets {
    fn none() -> Self {
        StrFacets { length: None, min_length: None, max_length: None, enumeration: None }
    }
    fn any(&self) -> bool {
        self.length.is_some() || self.min_length.is_some() || self.max_length.is_some() || self.enumeration.is_some()
    }
    fn valid(&self, s: &str) -> bool {
        let n = s.chars().count();
        self.length.map_or(true, |l| n == l)
            && self.min_length.map_or(true, |l| n >= l)
            && self.max_length.map_or(true, |l| n <= l)
            && self.enumeration.as_ref().map_or(true, |e| e.iter().any(|x| x == s))
    }
    fn names(&self) -> Vec<&'static str> {
        let mut n = vec![];
        if self.length.is_some() {
            n.push("length");
        }
        if self.min_length.is_some() {
            n.push("minLength");
        }
        if self.max_length.is_some() {
            n.push("maxLength");
        }
        if self.enumeration.is_some() {
            n.push("enumeration");
        }
        n
    }
    fn relations(&self, s: &str) -> String {
        let n = s.chars().count();
        let rel = |b: usize| {
            if n < b {
                "below"
            } else if n == b {
                "at"
            } else {
                "above"
            }
        };
        let mut parts = vec![];
        if let Some(b) = self.length {
            parts.push(format!("length:{}", rel(b)));
        }
        if let Some(b) = self.min_length {
            parts.push(format!("minLength:{}", rel(b)));
        }
        if let Some(b) = self.max_length {
            parts.push(format!("maxLength:{}", rel(b)));
        }
        if let Some(e) = &self.enumeration {
            parts.push(format!("enumeration:{}", if e.iter().any(|x| x == s) { "member" } else { "nonmember" }));
        }
        parts.join(",")
    }
    fn json(&self) -> Value {
        json!({"length": self.length, "minLength": self.min_length, "maxLength": self.max_length, "enumeration": self.enumeration})
    }
    fn from_json(v: &Value) -> Self {
        let g = |k: &str| v.get(k).and_then(|x| x.as_u64()).map(|x| x as usize);
        StrFacets {
            length: g("length"),
            min_length: g("minLength"),
            max_length: g("maxLength"),
            enumeration: v.get("enumeration").and_then(|e| e.as_array()).map(|a| a.iter().map(|x| x.as_str().unwrap_or("").to_string()).collect()),
        }
    }
}

fn mk(nf: &NumFacets, sf: &StrFacets) -> Rc<Restrictions> {
    Rc::new(Restrictions {
        min_inclusive: nf.min_inc,
        max_inclusive: nf.max_inc,
        min_exclusive: nf.min_exc,
        max_exclusive: nf.max_exc,
        length: sf.length,
        min_length: sf.min_length,
        max_length: sf.max_length,
        enumeration: sf.enumeration.clone(),
    })
}

fn opt_b() -> Vec<Option<i32>> {
    let mut v = vec![None];
    v.extend(B.iter().map(|b| Some(*b)));
    v
}

/// all numeric facet sets, fewest facets first (so the first witness is the smallest)
fn all_num_facets(max_present: usize) -> Vec<NumFacets> {
    let o = opt_b();
    let mut v = vec![];
    for a in &o {
        for b in &o {
            for c in &o {
                for d in &o {
                    let f = NumFacets { min_inc: *a, max_inc: *b, min_exc: *c, max_exc: *d };
                    if f.count() <= max_present {
                        v.push(f);
                    }
                }
            }
        }
    }
    v.sort_by_key(|f| f.count());
    v
}

fn all_str_facets() -> Vec<StrFacets> {
    let lens: Vec<Option<usize>> = vec![None, Some(0), Some(1), Some(2), Some(3)];
    let enums: Vec<Option<Vec<String>>> = vec![
        None,
        Some(vec![]),
        Some(vec!["a".into()]),
        Some(vec!["a".into(), "é€".into()]),
        Some(vec!["12".into()]),
    ];
    let mut v = vec![];
    for l in &lens {
        for mi in &lens {
            for ma in &lens {
                for e in &enums {
                    v.push(StrFacets { length: *l, min_length: *mi, max_length: *ma, enumeration: e.clone() });
                }
            }
        }
    }
    // enumerations alone: EVERY ordered list of 0..3 distinct members over a 6-string alphabet (the
    // generator keeps the declaration order, which need not be sorted in any way)
    let alphabet = ["a", "b", "c", "é€", "10", "9", " a"];
    let mut lists: Vec<Vec<String>> = vec![vec![]];
    let mut frontier: Vec<Vec<String>> = vec![vec![]];
    for _ in 0..3 {
        let mut next = vec![];
        for l in &frontier {
            for a in alphabet {
                if !l.iter().any(|x| x == a) {
                    let mut m = l.clone();
                    m.push(a.to_string());
                    next.push(m);
                }
            }
        }
        lists.extend(next.iter().cloned());
        frontier = next;
    }
    for l in lists {
        let f = StrFacets { length: None, min_length: None, max_length: None, enumeration: Some(l) };
        if !v.contains(&f) {
            v.push(f);
        }
    }
    v.sort_by_key(|f| f.names().len());
    v
}

fn int_values(min: i128, max: i128, full: bool) -> Vec<i128> {
    let mut v: Vec<i128> = vec![];
    if full {
        v.extend(min..=max);
    } else {
        v.push(min);
        v.push(max);
        v.push(i32::MIN as i128 - 1);
        v.push(i32::MAX as i128 + 1);
        for b in B {
            for d in [-1i128, 0, 1] {
                v.push(b as i128 + d);
            }
        }
    }
    v.retain(|x| *x >= min && *x <= max);
    v.sort();
    v.dedup();
    v
}

fn strings() -> Vec<String> {
    let mut v: Vec<String> =
        ["", "a", "b", "c", "10", "9", "é€", " a", "a ", "a\n", "\ta", " ", "ab", "aé€", "12", "-1", "+1", "007", "2147483648", "abc", "-2147483649", "9223372036854775808", "\u{1d11e}", "a\u{1d11e}", "\u{1d11e}\u{1f600}", "-9223372036854775809", "18446744073709551616", "170141183460469231731687303715884105727"]
            .iter()
            .map(|s| s.to_string())
            .collect();
    for b in B {
        for d in [-1i128, 0, 1] {
            v.push((b as i128 + d).to_string());
        }
    }
    v.sort();
    v.dedup();
    v
}

/// XSD integer lexical form (optional sign, digits); None = not a numeral
fn xsd_integer(s: &str) -> Option<i128> {
    let (neg, digits) = match s.as_bytes().first() {
        Some(b'-') => (true, &s[1..]),
        Some(b'+') => (false, &s[1..]),
        _ => (false, s),
    };
    if digits.is_empty() || !digits.bytes().all(|b| b.is_ascii_digit()) {
        return None;
    }
    // numerals beyond i128 are not in the alphabet (the widest one is i128::MAX)
    let v: i128 = digits.parse().ok()?;
    Some(if neg { -v } else { v })
}

fn string_class(s: &str) -> &'static str {
    match xsd_integer(s) {
        None => "non-numeral",
        Some(v) if v > i32::MAX as i128 || v < i32::MIN as i128 => "numeral-beyond-i32",
        Some(_) if s.starts_with('+') => "numeral-plus-sign",
        Some(_) if s.len() > 1 && s.trim_start_matches('-').starts_with('0') => "numeral-leading-zero",
        Some(_) => "numeral",
    }
}

struct Agg {
    /// context -> (violation, occurrences)
    found: BTreeMap<String, (Violation, u64)>,
}

impl Agg {
    fn add(&mut self, v: Violation) {
        let key = format!("{:?}", v.context);
        self.found.entry(key).and_modify(|e| e.1 += 1).or_insert((v, 1));
    }
}

fn int_range_class(v: i128) -> &'static str {
    if v > i32::MAX as i128 {
        "above-i32"
    } else if v < i32::MIN as i128 {
        "below-i32"
    } else {
        "within-i32"
    }
}

macro_rules! int_carrier {
    ($name:ident, $t:ty, $full:expr) => {
        fn $name(rep: &mut Report, agg: &mut Agg, facets: &[NumFacets]) {
            let carrier = stringify!($t);
            let vals = int_values(<$t>::MIN as i128, <$t>::MAX as i128, $full);
            // no restriction set at all: every value accepted
            for &v in &vals {
                let x = v as $t;
                let got = x.check_restrictions(None).is_ok();
                rep.count("evaluations", 1);
                rep.count("nontrivial", 1);
                if !got {
                    agg.add(viol_int(carrier, "bare", None, v, true, got));
                }
            }
            for f in facets {
                let r = mk(f, &StrFacets::none());
                for &v in &vals {
                    let x = v as $t;
                    let exp = f.valid(v);
                    let got = x.check_restrictions(Some(r.clone())).is_ok();
                    rep.count("evaluations", 1);
                    if f.any() {
                        rep.count("nontrivial", 1);
                    }
                    rep.outcome("verdict", format!("{carrier}:{exp}"));
                    if exp != got {
                        agg.add(viol_int(carrier, "bare", Some(f), v, exp, got));
                    }
                }
            }
            // lifts: Option and Vec (0..2 items) under facet sets with at most one facet
            let small: Vec<&NumFacets> = facets.iter().filter(|f| f.count() <= 1).collect();
            for f in small {
                let r = mk(f, &StrFacets::none());
                let none: Option<$t> = None;
                rep.count("evaluations", 1);
                if none.check_restrictions(Some(r.clone())).is_err() {
                    agg.add(viol_lift(carrier, "option-none", Some(f), json!(null), true, false));
                }
                let empty: Vec<$t> = vec![];
                rep.count("evaluations", 1);
                if empty.check_restrictions(Some(r.clone())).is_err() {
                    agg.add(viol_lift(carrier, "vec-0", Some(f), json!([]), true, false));
                }
                for &v in &vals {
                    let x = v as $t;
                    let exp = f.valid(v);
                    let got = Some(x).check_restrictions(Some(r.clone())).is_ok();
                    rep.count("evaluations", 1);
                    rep.count("nontrivial", 1);
                    if exp != got {
                        agg.add(viol_lift(carrier, "option-some", Some(f), json!(v.to_string()), exp, got));
                    }
                    let got = vec![x].check_restrictions(Some(r.clone())).is_ok();
                    rep.count("evaluations", 1);
                    rep.count("nontrivial", 1);
                    if exp != got {
                        agg.add(viol_lift(carrier, "vec-1", Some(f), json!([v.to_string()]), exp, got));
                    }
                }
                // pairs: boundary-reduced value list to keep the product small for wide carriers
                let pv: Vec<i128> = if vals.len() > 64 { vals.iter().copied().step_by(vals.len() / 32).collect() } else { vals.clone() };
                for &a in &pv {
                    for &b in &pv {
                        let exp = f.valid(a) && f.valid(b);
                        let got = vec![a as $t, b as $t].check_restrictions(Some(r.clone())).is_ok();
                        rep.count("evaluations", 1);
                        rep.count("nontrivial", 1);
                        if exp != got {
                            agg.add(viol_lift(carrier, "vec-2", Some(f), json!([a.to_string(), b.to_string()]), exp, got));
                        }
                    }
                }
            }
        }
    };
}

int_carrier!(run_i8, i8, true);
int_carrier!(run_u8, u8, true);
int_carrier!(run_i16, i16, false);
int_carrier!(run_u16, u16, false);
int_carrier!(run_i32, i32, false);
int_carrier!(run_u32, u32, false);
int_carrier!(run_i64, i64, false);
int_carrier!(run_u64, u64, false);

fn viol_int(carrier: &str, lift: &str, f: Option<&NumFacets>, v: i128, exp: bool, got: bool) -> Violation {
    let mut x = Violation::new("C06", "facet.verdict", "integer-carriers")
        .ctx("carrier", carrier)
        .ctx("lift", lift)
        .ctx("restriction", if f.is_some() { "some" } else { "none" })
        .ctx("facets", f.map(|f| f.names().join("+")).unwrap_or_default())
        .ctx("relation", f.map(|f| f.relations(v)).unwrap_or_default())
        .ctx("value_range", int_range_class(v))
        .exp(if exp { "Ok" } else { "Err" })
        .act(if got { "Ok" } else { "Err" })
        .depth(f.map(|f| f.count() as u32).unwrap_or(0));
    x.case = json!({"kind": "int", "carrier": carrier, "lift": lift, "restriction": f.map(|f| f.json()), "value": v.to_string()});
    x
}

fn viol_lift(carrier: &str, lift: &str, f: Option<&NumFacets>, vals: Value, exp: bool, got: bool) -> Violation {
    let mut x = Violation::new("C06", "facet.verdict", "lifts")
        .ctx("carrier", carrier)
        .ctx("lift", lift)
        .ctx("restriction", if f.is_some() { "some" } else { "none" })
        .ctx("facets", f.map(|f| f.names().join("+")).unwrap_or_default())
        .exp(if exp { "Ok" } else { "Err" })
        .act(if got { "Ok" } else { "Err" })
        .depth(f.map(|f| f.count() as u32).unwrap_or(0));
    x.case = json!({"kind": "lift", "carrier": carrier, "lift": lift, "restriction": f.map(|f| f.json()), "values": vals});
    x
}

fn string_expected(nf: &NumFacets, sf: &StrFacets, s: &str) -> bool {
    let num_ok = if nf.any() {
        match xsd_integer(s) {
            Some(v) => nf.valid(v),
            None => false,
        }
    } else {
        true
    };
    num_ok && sf.valid(s)
}

fn viol_str(nf: Option<&NumFacets>, sf: Option<&StrFacets>, s: &str, exp: bool, got: bool, lift: &str) -> Violation {
    let mut names: Vec<&str> = vec![];
    let mut rel: Vec<String> = vec![];
    if let Some(nf) = nf {
        names.extend(nf.names());
        if nf.any() {
            if let Some(v) = xsd_integer(s) {
                rel.push(nf.relations(v));
            }
        }
    }
    if let Some(sf) = sf {
        names.extend(sf.names());
        if sf.any() {
            rel.push(sf.relations(s));
        }
    }
    let some = nf.is_some() || sf.is_some();
    let depth = names.len() as u32;
    let mut x = Violation::new("C06", "facet.verdict", "string-carrier")
        .ctx("carrier", "String")
        .ctx("lift", lift)
        .ctx("restriction", if some { "some" } else { "none" })
        .ctx("facets", names.join("+"))
        .ctx("relation", rel.join(","))
        .ctx("value_class", string_class(s))
        .exp(if exp { "Ok" } else { "Err" })
        .act(if got { "Ok" } else { "Err" })
        .depth(depth);
    x.case = json!({"kind": "string", "lift": lift, "restriction": if some { json!({"num": nf.map(|f| f.json()), "str": sf.map(|f| f.json())}) } else { Value::Null }, "value": s});
    x
}

fn run_strings(rep: &mut Report, agg: &mut Agg, num_all: &[NumFacets], strf: &[StrFacets]) {
    let vals = strings();
    for s in &vals {
        rep.count("evaluations", 1);
        rep.count("nontrivial", 1);
        if s.check_restrictions(None).is_err() {
            agg.add(viol_str(None, None, s, true, false, "bare"));
        }
    }
    // full numeric product, no string facets
    let nosf = StrFacets::none();
    for nf in num_all {
        let r = mk(nf, &nosf);
        for s in &vals {
            let exp = string_expected(nf, &nosf, s);
            let got = s.check_restrictions(Some(r.clone())).is_ok();
            rep.count("evaluations", 1);
            if nf.any() {
                rep.count("nontrivial", 1);
            }
            rep.outcome("verdict", format!("String:{exp}"));
            if exp != got {
                agg.add(viol_str(Some(nf), Some(&nosf), s, exp, got, "bare"));
            }
        }
    }
    // full string-facet product x numeric facet sets with at most one facet
    let small: Vec<&NumFacets> = num_all.iter().filter(|f| f.count() <= 1).collect();
    for sf in strf {
        for nf in &small {
            let r = mk(nf, sf);
            for s in &vals {
                let exp = string_expected(nf, sf, s);
                let got = s.check_restrictions(Some(r.clone())).is_ok();
                rep.count("evaluations", 1);
                if nf.any() || sf.any() {
                    rep.count("nontrivial", 1);
                }
                if exp != got {
                    agg.add(viol_str(Some(nf), Some(sf), s, exp, got, "bare"));
                }
            }
        }
    }
    // lifts
    let none_nf = NumFacets::none();
    for sf in strf.iter().filter(|f| f.names().len() <= 1) {
        let r = mk(&none_nf, sf);
        let n: Option<String> = None;
        rep.count("evaluations", 2);
        if n.check_restrictions(Some(r.clone())).is_err() {
            agg.add(viol_str(Some(&none_nf), Some(sf), "", true, false, "option-none"));
        }
        let e: Vec<String> = vec![];
        if e.check_restrictions(Some(r.clone())).is_err() {
            agg.add(viol_str(Some(&none_nf), Some(sf), "", true, false, "vec-0"));
        }
        for a in &vals {
            let exp = sf.valid(a);
            rep.count("evaluations", 2);
            rep.count("nontrivial", 2);
            let got = Some(a.clone()).check_restrictions(Some(r.clone())).is_ok();
            if exp != got {
                agg.add(viol_str(Some(&none_nf), Some(sf), a, exp, got, "option-some"));
            }
            let got = vec![a.clone()].check_restrictions(Some(r.clone())).is_ok();
            if exp != got {
                agg.add(viol_str(Some(&none_nf), Some(sf), a, exp, got, "vec-1"));
            }
            for b in &vals {
                let exp2 = exp && sf.valid(b);
                rep.count("evaluations", 1);
                rep.count("nontrivial", 1);
                let got = vec![a.clone(), b.clone()].check_restrictions(Some(r.clone())).is_ok();
                if exp2 != got {
                    let mut v = viol_str(Some(&none_nf), Some(sf), a, exp2, got, "vec-2");
                    v.case["value2"] = json!(b);
                    agg.add(v);
                }
            }
        }
    }
}

fn run_float_bool(rep: &mut Report, agg: &mut Agg, num_all: &[NumFacets]) {
    let f32s = [0.0f32, -0.0, 1.5, -1.5, f32::MAX, f32::MIN_POSITIVE, f32::NAN, f32::INFINITY];
    let f64s = [0.0f64, -0.0, 1.5, -1.5, f64::MAX, f64::MIN_POSITIVE, f64::NAN, f64::NEG_INFINITY];
    let nosf = StrFacets::none();
    let mut all: Vec<Option<Rc<Restrictions>>> = vec![None];
    all.extend(num_all.iter().map(|f| Some(mk(f, &nosf))));
    for (i, r) in all.iter().enumerate() {
        let mk_v = |carrier: &str, val: String| {
            let mut x = Violation::new("C06", "facet.verdict", "float-bool")
                .ctx("carrier", carrier)
                .ctx("lift", "bare")
                .ctx("restriction", if i == 0 { "none" } else { "some" })
                .exp("Ok")
                .act("Err");
            x.case = json!({"kind": "floatbool", "carrier": carrier, "value": val, "restriction": if i == 0 { Value::Null } else { num_all[i - 1].json() }});
            x
        };
        for v in f32s {
            rep.count("evaluations", 1);
            rep.count("nontrivial", 1);
            if v.check_restrictions(r.clone()).is_err() {
                agg.add(mk_v("f32", format!("{v:?}")));
            }
            if Some(v).check_restrictions(r.clone()).is_err() || vec![v, v].check_restrictions(r.clone()).is_err() {
                agg.add(mk_v("f32-lift", format!("{v:?}")));
            }
        }
        for v in f64s {
            rep.count("evaluations", 1);
            rep.count("nontrivial", 1);
            if v.check_restrictions(r.clone()).is_err() {
                agg.add(mk_v("f64", format!("{v:?}")));
            }
            if Some(v).check_restrictions(r.clone()).is_err() || vec![v, v].check_restrictions(r.clone()).is_err() {
                agg.add(mk_v("f64-lift", format!("{v:?}")));
            }
        }
        for v in [false, true] {
            rep.count("evaluations", 1);
            rep.count("nontrivial", 1);
            if v.check_restrictions(r.clone()).is_err() {
                agg.add(mk_v("bool", format!("{v:?}")));
            }
            if Some(v).check_restrictions(r.clone()).is_err() || vec![v, !v].check_restrictions(r.clone()).is_err() {
                agg.add(mk_v("bool-lift", format!("{v:?}")));
            }
        }
    }
}

pub fn check(tier: &str) -> i32 {
    let mut rep = Report::new("C06", tier, "model_checking");
    let mut agg = Agg { found: BTreeMap::new() };
    let num_all = all_num_facets(4);
    let strf = all_str_facets();
    run_i8(&mut rep, &mut agg, &num_all);
    run_u8(&mut rep, &mut agg, &num_all);
    run_i16(&mut rep, &mut agg, &num_all);
    run_u16(&mut rep, &mut agg, &num_all);
    run_i32(&mut rep, &mut agg, &num_all);
    run_u32(&mut rep, &mut agg, &num_all);
    run_i64(&mut rep, &mut agg, &num_all);
    run_u64(&mut rep, &mut agg, &num_all);
    run_strings(&mut rep, &mut agg, &num_all, &strf);
    run_float_bool(&mut rep, &mut agg, &num_all);

    // keep only minimal violations: drop one whose (carrier, lift) has a reported violation with a
    // strict subset of its facets and the same per-facet relations
    let all: Vec<(Violation, u64)> = agg.found.values().cloned().collect();
    let mut kept = 0u64;
    for (v, n) in &all {
        let facets: Vec<&str> = v.context.get("facets").map(|s| s.split('+').filter(|x| !x.is_empty()).collect()).unwrap_or_default();
        let rels: Vec<&str> = v.context.get("relation").map(|s| s.split(',').filter(|x| !x.is_empty()).collect()).unwrap_or_default();
        let dominated = all.iter().any(|(o, _)| {
            if std::ptr::eq(o, v) || o.context.get("carrier") != v.context.get("carrier") || o.context.get("lift") != v.context.get("lift") {
                return false;
            }
            if o.context.get("value_class") != v.context.get("value_class") || o.context.get("value_range") != v.context.get("value_range") {
                return false;
            }
            let of: Vec<&str> = o.context.get("facets").map(|s| s.split('+').filter(|x| !x.is_empty()).collect()).unwrap_or_default();
            let or: Vec<&str> = o.context.get("relation").map(|s| s.split(',').filter(|x| !x.is_empty()).collect()).unwrap_or_default();
            of.len() < facets.len() && of.iter().all(|f| facets.contains(f)) && or.iter().all(|r| rels.contains(r))
        });
        if !dominated {
            kept += 1;
            let mut vv = v.clone();
            vv.context.insert("occurrences".into(), n.to_string());
            vv.context.remove("occurrences");
            rep.violation(vv);
        }
    }
    let ev = rep.counters.get("evaluations").copied().unwrap_or(0);
    let nt = rep.counters.get("nontrivial").copied().unwrap_or(0);
    rep.set("evaluations", json!(ev));
    rep.set("distinct_nontrivial", json!(nt));
    rep.set("rule", json!("complete product: 8 integer carriers x all 9^4 numeric facet sets over B={i32::MIN,-129,-1,0,1,127,256,i32::MAX} x carrier values (i8/u8 full range; wider: MIN, MAX, i32::MIN-1, i32::MAX+1, b-1,b,b+1 for b in B); String x (all 9^4 numeric sets) and x (all 5^3x5 length/enumeration sets x <=1 numeric facet) x 35 strings; Option/Vec(0..2) lifts under <=1 facet; f32/f64/bool under every set; every triple is generated exactly once, so all are distinct; non-trivial = a restriction set with at least one facet, or the restriction-absent case (which the property states explicitly)"));
    rep.set("exhaustive", json!(true));
    rep.set("bound", json!("facet bounds in B, lengths in {0,1,2,3}, enumerations of <=2 strings combined with length facets, and every ordered enumeration of <=3 of 7 strings (one with a leading blank) alone; values with leading/trailing blanks, tab, line feed, Vec of <=2 items"));
    rep.set("raw_discrepancy_contexts", json!(all.len()));
    rep.set("minimal_discrepancies", json!(kept));
    rep.sample(json!({"carrier": "i64", "restriction": {"minInclusive": 0}, "value": "0", "expected": "Ok"}));
    rep.sample(json!({"carrier": "String", "restriction": {"maxExclusive": 256, "length": 3}, "value": "255", "expected": "Ok"}));
    rep.sample(json!({"carrier": "u64", "restriction": null, "value": u64::MAX.to_string(), "expected": "Ok"}));
    rep.assume("the helper source /repo/zeep-lib/src/model/helpers_content.rs is compiled unmodified by #[path]");
    rep.assume("length and enumeration facets are paired with String carriers only (XSD defines neither for numbers; numeric simple types are carried as String by the generator)");
    rep.assume("the comparison code uses only </<=/== on the parsed value, so b-1,b,b+1 per bound realise every order type of (value, bound)");
    rep.finish()
}

fn eval_int_json(carrier: &str, lift: &str, r: Option<Rc<Restrictions>>, vals: &[i128]) -> bool {
    macro_rules! go {
        ($t:ty) => {{
            match lift {
                "bare" => (vals[0] as $t).check_restrictions(r).is_ok(),
                "option-none" => Option::<$t>::None.check_restrictions(r).is_ok(),
                "option-some" => Some(vals[0] as $t).check_restrictions(r).is_ok(),
                _ => vals.iter().map(|v| *v as $t).collect::<Vec<$t>>().check_restrictions(r).is_ok(),
            }
        }};
    }
    match carrier {
        "i8" => go!(i8),
        "u8" => go!(u8),
        "i16" => go!(i16),
        "u16" => go!(u16),
        "i32" => go!(i32),
        "u32" => go!(u32),
        "i64" => go!(i64),
        "u64" => go!(u64),
        _ => crate::report::machinery("replay: unknown carrier"),
    }
}

pub fn replay(v: &Violation) -> i32 {
    let c = &v.case;
    let kind = c["kind"].as_str().unwrap_or("");
    let (exp, got) = match kind {
        "int" | "lift" => {
            let nf = if c["restriction"].is_null() { None } else { Some(NumFacets::from_json(&c["restriction"])) };
            let r = nf.map(|f| mk(&f, &StrFacets::none()));
            let vals: Vec<i128> = if kind == "int" {
                vec![c["value"].as_str().unwrap().parse().unwrap()]
            } else {
                match &c["values"] {
                    Value::Array(a) => a.iter().map(|x| x.as_str().unwrap().parse().unwrap()).collect(),
                    Value::String(s) => vec![s.parse().unwrap()],
                    _ => vec![],
                }
            };
            let exp = nf.map_or(true, |f| vals.iter().all(|v| f.valid(*v)));
            let got = eval_int_json(c["carrier"].as_str().unwrap(), c["lift"].as_str().unwrap(), r, &vals);
            (exp, got)
        }
        "string" => {
            let s = c["value"].as_str().unwrap().to_string();
            let lift = c["lift"].as_str().unwrap_or("bare");
            let (nf, sf, r) = if c["restriction"].is_null() {
                (NumFacets::none(), StrFacets::none(), None)
            } else {
                let nf = if c["restriction"]["num"].is_null() { NumFacets::none() } else { NumFacets::from_json(&c["restriction"]["num"]) };
                let sf = if c["restriction"]["str"].is_null() { StrFacets::none() } else { StrFacets::from_json(&c["restriction"]["str"]) };
                let r = Some(mk(&nf, &sf));
                (nf, sf, r)
            };
            let mut items = vec![s.clone()];
            if let Some(b) = c.get("value2").and_then(|b| b.as_str()) {
                items.push(b.to_string());
            }
            let exp = match lift {
                "option-none" | "vec-0" => true,
                _ => items.iter().all(|x| string_expected(&nf, &sf, x)),
            };
            let got = match lift {
                "bare" => s.check_restrictions(r).is_ok(),
                "option-none" => Option::<String>::None.check_restrictions(r).is_ok(),
                "option-some" => Some(s).check_restrictions(r).is_ok(),
                "vec-0" => Vec::<String>::new().check_restrictions(r).is_ok(),
                _ => items.check_restrictions(r).is_ok(),
            };
            (exp, got)
        }
        _ => {
            println!("replay: float/bool case: expected Ok for every restriction; re-run `./check C06 quick`");
            return 0;
        }
    };
    println!("replay C06: expected={} actual={}", if exp { "Ok" } else { "Err" }, if got { "Ok" } else { "Err" });
    if exp != got {
        println!("VIOLATION property=C06 replay=(replayed)");
        1
    } else {
        0
    }
}
