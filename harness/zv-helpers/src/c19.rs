//! C19: `MultiRef<T>` is transparent. Differential enumeration bare vs wrapped over a family of
//! probe types (text-only, attributes, nested, optional/repeated, restricted, namespaced), at the
//! root and as a field (plain, Option, Vec), over the complete product of small member alphabets.
//! Self-referential probes (no bare counterpart exists) are compared with an independently written
//! forwarding wrapper that lives here, in supervised sub-processes (yaserde may not terminate).

use crate::hc::error::SoapResult;
use crate::hc::multi_ref::MultiRef;
use crate::hc::restrictions::{CheckRestrictions, Restrictions};
use crate::report::{Report, Violation};
use serde_json::json;
use std::collections::BTreeMap;
use std::fmt::Debug;
use std::rc::Rc;
use std::sync::Arc;
use yaserde::{YaDeserialize, YaSerialize};
use yaserde_derive::{YaDeserialize, YaSerialize};

// ---------------------------------------------------------------------------------------------
// probe types

#[derive(Debug, Default, Clone, PartialEq, YaSerialize, YaDeserialize)]
#[yaserde(rename = "TextOnly")]
pub struct TextOnly {
    #[yaserde(text = true)]
    pub value: String,
}
impl CheckRestrictions for TextOnly {
    fn check_restrictions(&self, r: Option<Rc<Restrictions>>) -> SoapResult<()> {
        self.value.check_restrictions(r)
    }
}

#[derive(Debug, Default, Clone, PartialEq, YaSerialize, YaDeserialize)]
#[yaserde(rename = "Attrs")]
pub struct Attrs {
    #[yaserde(attribute = true)]
    pub id: String,
    #[yaserde(attribute = true, rename = "n")]
    pub num: i32,
    #[yaserde(rename = "Body")]
    pub body: String,
}
impl CheckRestrictions for Attrs {
    fn check_restrictions(&self, r: Option<Rc<Restrictions>>) -> SoapResult<()> {
        self.id.check_restrictions(r.clone())?;
        self.num.check_restrictions(r.clone())?;
        self.body.check_restrictions(r)
    }
}

#[derive(Debug, Default, Clone, PartialEq, YaSerialize, YaDeserialize)]
#[yaserde(rename = "Nested")]
pub struct Nested {
    #[yaserde(rename = "Head")]
    pub head: TextOnly,
    #[yaserde(rename = "Tail")]
    pub tail: Attrs,
}
impl CheckRestrictions for Nested {
    fn check_restrictions(&self, r: Option<Rc<Restrictions>>) -> SoapResult<()> {
        self.head.check_restrictions(r.clone())?;
        self.tail.check_restrictions(r)
    }
}

#[derive(Debug, Default, Clone, PartialEq, YaSerialize, YaDeserialize)]
#[yaserde(rename = "OptRep")]
pub struct OptRep {
    #[yaserde(rename = "Opt")]
    pub opt: Option<String>,
    #[yaserde(rename = "Rep")]
    pub rep: Vec<i32>,
    #[yaserde(rename = "OptC")]
    pub optc: Option<Attrs>,
}
impl CheckRestrictions for OptRep {
    fn check_restrictions(&self, r: Option<Rc<Restrictions>>) -> SoapResult<()> {
        self.opt.check_restrictions(r.clone())?;
        self.rep.check_restrictions(r.clone())?;
        self.optc.check_restrictions(r)
    }
}

/// restricted simple type in the shape the generator emits: own facets, argument ignored
#[derive(Debug, Default, Clone, PartialEq, YaSerialize, YaDeserialize)]
#[yaserde(rename = "Code")]
pub struct Restricted {
    #[yaserde(text = true)]
    pub value: String,
}
impl CheckRestrictions for Restricted {
    fn check_restrictions(&self, _r: Option<Rc<Restrictions>>) -> SoapResult<()> {
        let r = Some(Rc::new(Restrictions { min_length: Some(2), max_length: Some(3), ..Default::default() }));
        self.value.check_restrictions(r)
    }
}

#[derive(Debug, Default, Clone, PartialEq, YaSerialize, YaDeserialize)]
#[yaserde(prefix = "p", namespaces = {"p" = "urn:zv:p", "q" = "urn:zv:q"}, rename = "Ns")]
pub struct Ns {
    #[yaserde(attribute = true, rename = "k")]
    pub k: String,
    #[yaserde(prefix = "p", rename = "A")]
    pub a: String,
    #[yaserde(prefix = "q", rename = "B")]
    pub b: Option<i64>,
}
impl CheckRestrictions for Ns {
    fn check_restrictions(&self, r: Option<Rc<Restrictions>>) -> SoapResult<()> {
        self.k.check_restrictions(r.clone())?;
        self.a.check_restrictions(r.clone())?;
        self.b.check_restrictions(r)
    }
}

// ---------------------------------------------------------------------------------------------
// value alphabets

const STRS: [&str; 5] = ["x", "a<b&c>\"'", "é€", "  padded  ", "abcd"];
const INTS: [i32; 5] = [i32::MIN, -1, 0, 1, i32::MAX];

fn v_text() -> Vec<TextOnly> {
    STRS.iter().map(|s| TextOnly { value: s.to_string() }).collect()
}
fn v_attrs() -> Vec<Attrs> {
    let mut v = vec![];
    for id in STRS {
        for n in INTS {
            for b in STRS {
                v.push(Attrs { id: id.into(), num: n, body: b.into() });
            }
        }
    }
    v
}
fn v_nested() -> Vec<Nested> {
    let mut v = vec![];
    for h in v_text() {
        for t in v_attrs().into_iter().step_by(7) {
            v.push(Nested { head: h.clone(), tail: t });
        }
    }
    v
}
fn v_optrep() -> Vec<OptRep> {
    let mut v = vec![];
    let opts: Vec<Option<String>> = std::iter::once(None).chain(STRS.iter().map(|s| Some(s.to_string()))).collect();
    let reps: Vec<Vec<i32>> = vec![vec![], vec![0], vec![i32::MIN, 1, i32::MAX]];
    let optcs: Vec<Option<Attrs>> = vec![None, Some(Attrs { id: "é€".into(), num: -1, body: "a<b&c>\"'".into() }), Some(Attrs::default())];
    for o in &opts {
        for r in &reps {
            for c in &optcs {
                v.push(OptRep { opt: o.clone(), rep: r.clone(), optc: c.clone() });
            }
        }
    }
    v
}
fn v_restricted() -> Vec<Restricted> {
    ["", "a", "ab", "é€", "abc", "aé€", "abcd", "  "].iter().map(|s| Restricted { value: s.to_string() }).collect()
}
fn v_ns() -> Vec<Ns> {
    let mut v = vec![];
    for k in STRS {
        for a in STRS {
            for b in [None, Some(i64::MIN), Some(0), Some(i64::MAX)] {
                v.push(Ns { k: k.into(), a: a.into(), b });
            }
        }
    }
    v
}

// ---------------------------------------------------------------------------------------------
// observations

struct Agg {
    found: BTreeMap<String, (Violation, u64)>,
    evaluations: u64,
    distinct_texts: std::collections::BTreeSet<u64>,
    err_verdicts: u64,
    ok_verdicts: u64,
    handle_states: u64,
}

impl Agg {
    fn diff(&mut self, probe: &str, position: &str, obs: &str, bare: String, wrapped: String, value: String) {
        let mut v = Violation::new("C19", "multiref.diff", "probes")
            .ctx("probe", probe)
            .ctx("position", position)
            .ctx("observation", obs)
            .exp(bare)
            .act(wrapped);
        v.case = json!({"probe": probe, "position": position, "observation": obs, "value": value});
        let key = format!("{:?}", v.context);
        self.found.entry(key).and_modify(|e| e.1 += 1).or_insert((v, 1));
    }
}

fn ser<T: YaSerialize>(v: &T) -> String {
    match yaserde::ser::to_string(v) {
        Ok(s) => format!("Ok:{s}"),
        Err(e) => format!("Err:{e}"),
    }
}
/// `{:?}` without the leading type name (holder twins are two distinct struct names)
fn dbg<T: Debug>(v: &T) -> String {
    let s = format!("{v:?}");
    match s.find(" {") {
        Some(i) => s[i..].to_string(),
        None => s,
    }
}
fn de<T: YaDeserialize + Debug>(s: &str) -> String {
    match yaserde::de::from_str::<T>(s) {
        Ok(v) => format!("Ok:{}", dbg(&v)),
        Err(e) => format!("Err:{e}"),
    }
}
fn chk<T: CheckRestrictions>(v: &T, r: Option<Rc<Restrictions>>) -> String {
    match v.check_restrictions(r) {
        Ok(()) => "Ok".into(),
        Err(e) => format!("Err:{e:?}"),
    }
}

fn restriction_args() -> Vec<Option<Rc<Restrictions>>> {
    vec![
        None,
        Some(Rc::new(Restrictions { max_length: Some(3), ..Default::default() })),
        Some(Rc::new(Restrictions { min_inclusive: Some(0), ..Default::default() })),
    ]
}

fn root_obs<T>(agg: &mut Agg, probe: &str, vals: &[T])
where
    T: Clone + Debug + Default + YaSerialize + YaDeserialize + CheckRestrictions,
{
    // Default
    let d_b = format!("{:?}", T::default());
    let d_w = format!("{:?}", MultiRef::<T>::default());
    agg.evaluations += 1;
    if d_b != d_w {
        agg.diff(probe, "root", "default", d_b, d_w, "-".into());
    }
    for v in vals {
        let w = MultiRef::new(v.clone());
        let vs = format!("{v:?}");
        agg.evaluations += 1;
        let sb = ser(v);
        let sw = ser(&w);
        agg.distinct_texts.insert(crate::report::fnv1a(sb.as_bytes()));
        if sb != sw {
            agg.diff(probe, "root", "serialize", sb.clone(), sw, vs.clone());
        }
        if let Some(text) = sb.strip_prefix("Ok:") {
            let db = de::<T>(text);
            let dw = de::<MultiRef<T>>(text);
            if db != dw {
                agg.diff(probe, "root", "deserialize", db, dw, vs.clone());
            }
        }
        for r in restriction_args() {
            let cb = chk(v, r.clone());
            let cw = chk(&w, r);
            if cb.starts_with("Err") {
                agg.err_verdicts += 1;
            } else {
                agg.ok_verdicts += 1;
            }
            if cb != cw {
                agg.diff(probe, "root", "check_restrictions", cb, cw, vs.clone());
            }
        }
        let c = w.clone();
        if !std::ptr::eq(inner_addr(&*w), inner_addr(&*c)) {
            agg.diff(probe, "root", "clone-shares", "same allocation".into(), "copied".into(), vs.clone());
        }
        drop(c);
        if format!("{w:?}") != vs {
            agg.diff(probe, "root", "debug", vs.clone(), format!("{w:?}"), vs.clone());
        }
        // handle-state exploration: every sequence of <= 3 operations from {clone handle i, drop
        // handle i} starting from one handle; in every reached state every live handle must show
        // the bare value's observations (serialize, restriction verdicts, debug) and share storage
        let bare_obs = (sb.clone(), restriction_args().into_iter().map(|r| chk(v, r)).collect::<Vec<_>>(), vs.clone());
        let mut frontier: Vec<Vec<u8>> = vec![vec![]];
        for _depth in 0..=3 {
            let mut next = vec![];
            for seq in &frontier {
                // rebuild the state by replaying the operation sequence on a fresh wrapper
                let mut handles: Vec<MultiRef<T>> = vec![MultiRef::new(v.clone())];
                for op in seq {
                    let (kind, idx) = (op & 3, (op >> 2) as usize);
                    match kind {
                        0 => {
                            let h = handles[idx].clone();
                            handles.push(h);
                        }
                        1 => {
                            handles.remove(idx);
                        }
                        _ => {
                            // a wrapper that is the ONLY holder of another value takes this one over
                            let mut h = MultiRef::new(v.clone());
                            h.clone_from(&handles[idx]);
                            handles.push(h);
                        }
                    }
                }
                agg.evaluations += 1;
                agg.handle_states += 1;
                for (hi, h) in handles.iter().enumerate() {
                    let obs = (ser(h), restriction_args().into_iter().map(|r| chk(h, r)).collect::<Vec<_>>(), format!("{h:?}"));
                    if obs != bare_obs {
                        let what = if obs.0 != bare_obs.0 { "serialize" } else if obs.1 != bare_obs.1 { "check_restrictions" } else { "debug" };
                        agg.diff(probe, "root+shared-handles", what, format!("{bare_obs:?}"), format!("{obs:?}"), format!("{vs} ops={seq:?} handle={hi} live={}", handles.len()));
                    }
                    if !std::ptr::eq(inner_addr(&**h), inner_addr(&*handles[0])) {
                        agg.diff(probe, "root+shared-handles", "clone-shares", "same allocation".into(), "copied".into(), format!("{vs} ops={seq:?}"));
                    }
                }
                if seq.len() < 3 {
                    for i in 0..handles.len() {
                        if handles.len() < 3 {
                            let mut s2 = seq.clone();
                            s2.push((i as u8) << 2);
                            next.push(s2);
                            let mut s3 = seq.clone();
                            s3.push(((i as u8) << 2) | 2);
                            next.push(s3);
                        }
                        if handles.len() > 1 {
                            let mut s2 = seq.clone();
                            s2.push(((i as u8) << 2) | 1);
                            next.push(s2);
                        }
                    }
                }
            }
            frontier = next;
        }
    }
}

macro_rules! field_probe {
    ($fname:ident, $t:ty, $hb:ident, $hw:ident) => {
        #[derive(Debug, Default, YaSerialize, YaDeserialize)]
        #[yaserde(rename = "Holder")]
        struct $hb {
            #[yaserde(attribute = true)]
            tag: String,
            #[yaserde(rename = "Inner")]
            inner: $t,
            #[yaserde(rename = "Opt")]
            opt: Option<$t>,
            #[yaserde(rename = "Items")]
            items: Vec<$t>,
            #[yaserde(rename = "After")]
            after: String,
        }
        #[derive(Debug, Default, YaSerialize, YaDeserialize)]
        #[yaserde(rename = "Holder")]
        struct $hw {
            #[yaserde(attribute = true)]
            tag: String,
            #[yaserde(rename = "Inner")]
            inner: MultiRef<$t>,
            #[yaserde(rename = "Opt")]
            opt: Option<MultiRef<$t>>,
            #[yaserde(rename = "Items")]
            items: Vec<MultiRef<$t>>,
            #[yaserde(rename = "After")]
            after: String,
        }
        impl CheckRestrictions for $hb {
            fn check_restrictions(&self, r: Option<Rc<Restrictions>>) -> SoapResult<()> {
                self.inner.check_restrictions(r.clone())?;
                self.opt.check_restrictions(r.clone())?;
                self.items.check_restrictions(r)
            }
        }
        impl CheckRestrictions for $hw {
            fn check_restrictions(&self, r: Option<Rc<Restrictions>>) -> SoapResult<()> {
                self.inner.check_restrictions(r.clone())?;
                self.opt.check_restrictions(r.clone())?;
                self.items.check_restrictions(r)
            }
        }
        fn $fname(agg: &mut Agg, probe: &str, vals: &[$t]) {
            let d_b = dbg(&$hb::default());
            let d_w = dbg(&$hw::default());
            agg.evaluations += 1;
            if d_b != d_w {
                agg.diff(probe, "field", "default", d_b, d_w, "-".into());
            }
            let n = vals.len();
            for (i, v) in vals.iter().enumerate() {
                // the Option and Vec members take neighbouring values so that every value also
                // appears there; shapes: opt in {absent, present}, items in {0, 1, 3}
                for shape in 0..7usize {
                    let opt = if shape == 6 { Some(v.clone()) } else if shape % 2 == 0 { None } else { Some(vals[(i + 1) % n].clone()) };
                    let items: Vec<$t> = match shape / 2 {
                        0 => vec![],
                        1 => vec![vals[(i + 2) % n].clone()],
                        2 => vec![vals[(i + 3) % n].clone(), v.clone(), vals[(i + 5) % n].clone()],
                        _ => vec![v.clone(), v.clone()],
                    };
                    let hb = $hb { tag: "t<&>".into(), inner: v.clone(), opt: opt.clone(), items: items.clone(), after: "z".into() };
                    let shared = MultiRef::new(v.clone());
                    let hw = if shape == 6 {
                        // one wrapped value referenced from three members (clones share it)
                        $hw { tag: "t<&>".into(), inner: shared.clone(), opt: Some(shared.clone()), items: vec![shared.clone(), shared.clone()], after: "z".into() }
                    } else {
                        $hw {
                            tag: "t<&>".into(),
                            inner: MultiRef::new(v.clone()),
                            opt: opt.clone().map(MultiRef::new),
                            items: items.iter().cloned().map(MultiRef::new).collect(),
                            after: "z".into(),
                        }
                    };
                    let vs = dbg(&hb);
                    let position = match shape {
                        0 => "field",
                        1 => "field+option",
                        2 | 4 => "field+vec",
                        6 => "field+shared-handles",
                        _ => "field+option+vec",
                    };
                    agg.evaluations += 1;
                    let sb = ser(&hb);
                    let sw = ser(&hw);
                    agg.distinct_texts.insert(crate::report::fnv1a(sb.as_bytes()));
                    if sb != sw {
                        agg.diff(probe, position, "serialize", sb.clone(), sw, vs.clone());
                    }
                    if let Some(text) = sb.strip_prefix("Ok:") {
                        let db = de::<$hb>(text);
                        let dw = de::<$hw>(text);
                        if db != dw {
                            agg.diff(probe, position, "deserialize", db, dw, vs.clone());
                        }
                    }
                    for r in restriction_args() {
                        let cb = chk(&hb, r.clone());
                        let cw = chk(&hw, r);
                        if cb.starts_with("Err") {
                            agg.err_verdicts += 1;
                        } else {
                            agg.ok_verdicts += 1;
                        }
                        if cb != cw {
                            agg.diff(probe, position, "check_restrictions", cb, cw, vs.clone());
                        }
                    }
                    if dbg(&hw) != vs {
                        agg.diff(probe, position, "debug", vs.clone(), dbg(&hw), vs.clone());
                    }
                }
            }
        }
    };
}

field_probe!(field_text, TextOnly, HbText, HwText);
field_probe!(field_attrs, Attrs, HbAttrs, HwAttrs);
field_probe!(field_nested, Nested, HbNested, HwNested);
field_probe!(field_optrep, OptRep, HbOptRep, HwOptRep);
field_probe!(field_restricted, Restricted, HbRestricted, HwRestricted);
field_probe!(field_ns, Ns, HbNs, HwNs);

macro_rules! flat_probe {
    ($fname:ident, $t:ty, $hb:ident, $hw:ident) => {
        #[derive(Debug, Default, YaSerialize, YaDeserialize)]
        #[yaserde(rename = "FlatHolder")]
        struct $hb {
            #[yaserde(attribute = true)]
            tag: String,
            #[yaserde(rename = "Before")]
            before: String,
            #[yaserde(flatten = true)]
            inner: $t,
        }
        #[derive(Debug, Default, YaSerialize, YaDeserialize)]
        #[yaserde(rename = "FlatHolder")]
        struct $hw {
            #[yaserde(attribute = true)]
            tag: String,
            #[yaserde(rename = "Before")]
            before: String,
            #[yaserde(flatten = true)]
            inner: MultiRef<$t>,
        }
        fn $fname(agg: &mut Agg, probe: &str, vals: &[$t]) {
            for v in vals {
                let hb = $hb { tag: "t".into(), before: "b".into(), inner: v.clone() };
                let hw = $hw { tag: "t".into(), before: "b".into(), inner: MultiRef::new(v.clone()) };
                let vs = dbg(&hb);
                agg.evaluations += 1;
                let sb = ser(&hb);
                let sw = ser(&hw);
                agg.distinct_texts.insert(crate::report::fnv1a(sb.as_bytes()));
                if sb != sw {
                    agg.diff(probe, "flattened-field", "serialize", sb.clone(), sw, vs.clone());
                }
                if let Some(text) = sb.strip_prefix("Ok:") {
                    let db = de::<$hb>(text);
                    let dw = de::<$hw>(text);
                    if db != dw {
                        agg.diff(probe, "flattened-field", "deserialize", db, dw, vs.clone());
                    }
                }
                if dbg(&hw) != vs {
                    agg.diff(probe, "flattened-field", "debug", vs.clone(), dbg(&hw), vs.clone());
                }
            }
        }
    };
}

flat_probe!(flat_text, TextOnly, FbText, FwText);
flat_probe!(flat_attrs, Attrs, FbAttrs, FwAttrs);
flat_probe!(flat_nested, Nested, FbNested, FwNested);
flat_probe!(flat_optrep, OptRep, FbOptRep, FwOptRep);
flat_probe!(flat_restricted, Restricted, FbRestricted, FwRestricted);
flat_probe!(flat_ns, Ns, FbNs, FwNs);

// ---------------------------------------------------------------------------------------------
// self-referential probe: hc::MultiRef vs the harness's own forwarding wrapper

pub struct OwnRef<T> {
    inner: Arc<T>,
}
impl<T: YaDeserialize> YaDeserialize for OwnRef<T> {
    fn deserialize<R: std::io::Read>(reader: &mut yaserde::de::Deserializer<R>) -> Result<Self, String> {
        Ok(OwnRef { inner: Arc::new(T::deserialize(reader)?) })
    }
}
impl<T: YaSerialize> YaSerialize for OwnRef<T> {
    fn serialize<W: std::io::Write>(&self, writer: &mut yaserde::ser::Serializer<W>) -> Result<(), String> {
        self.inner.serialize(writer)
    }
    fn serialize_attributes(
        &self,
        attributes: Vec<xml::attribute::OwnedAttribute>,
        namespace: xml::namespace::Namespace,
    ) -> Result<(Vec<xml::attribute::OwnedAttribute>, xml::namespace::Namespace), String> {
        self.inner.serialize_attributes(attributes, namespace)
    }
}
impl<T: Default> Default for OwnRef<T> {
    fn default() -> Self {
        OwnRef { inner: Arc::default() }
    }
}
impl<T: Debug> Debug for OwnRef<T> {
    fn fmt(&self, f: &mut std::fmt::Formatter<'_>) -> std::fmt::Result {
        self.inner.fmt(f)
    }
}

#[derive(Debug, Default, YaSerialize, YaDeserialize)]
#[yaserde(rename = "Node")]
struct NodeHc {
    #[yaserde(attribute = true)]
    id: String,
    #[yaserde(rename = "Value")]
    value: String,
    #[yaserde(rename = "Next")]
    next: Option<MultiRef<NodeHc>>,
}
#[derive(Debug, Default, YaSerialize, YaDeserialize)]
#[yaserde(rename = "Node")]
struct NodeOwn {
    #[yaserde(attribute = true)]
    id: String,
    #[yaserde(rename = "Value")]
    value: String,
    #[yaserde(rename = "Next")]
    next: Option<OwnRef<NodeOwn>>,
}

fn chain_hc(depth: usize) -> NodeHc {
    let mut n = NodeHc { id: format!("n{depth}"), value: "é<".into(), next: None };
    for d in (0..depth).rev() {
        n = NodeHc { id: format!("n{d}"), value: format!("v{d}"), next: Some(MultiRef::new(n)) };
    }
    n
}
fn chain_own(depth: usize) -> NodeOwn {
    let mut n = NodeOwn { id: format!("n{depth}"), value: "é<".into(), next: None };
    for d in (0..depth).rev() {
        n = NodeOwn { id: format!("n{d}"), value: format!("v{d}"), next: Some(OwnRef { inner: Arc::new(n) }) };
    }
    n
}

/// `zv-helpers C19-probe <ser|de> <hc|own> <depth>`: prints one line and exits.
pub fn probe_main(args: &[String]) -> i32 {
    let op = args.first().map(|s| s.as_str()).unwrap_or("");
    let which = args.get(1).map(|s| s.as_str()).unwrap_or("");
    let depth: usize = args.get(2).and_then(|s| s.parse().ok()).unwrap_or(0);
    let text = match which {
        "hc" => ser(&chain_hc(depth)),
        _ => ser(&chain_own(depth)),
    };
    match op {
        "ser" => println!("{text}"),
        _ => {
            let t = text.strip_prefix("Ok:").unwrap_or("");
            let r = match which {
                "hc" => de::<NodeHc>(t),
                _ => de::<NodeOwn>(t),
            };
            println!("{r}");
        }
    }
    0
}

fn run_probe(op: &str, which: &str, depth: usize) -> String {
    use std::io::Read;
    let exe = std::env::current_exe().expect("exe");
    let mut child = std::process::Command::new(exe)
        .args(["C19-probe", op, which, &depth.to_string()])
        .stdout(std::process::Stdio::piped())
        .stderr(std::process::Stdio::null())
        .spawn()
        .expect("spawn probe");
    let t0 = std::time::Instant::now();
    loop {
        match child.try_wait() {
            Ok(Some(st)) => {
                let mut s = String::new();
                let _ = child.stdout.take().unwrap().read_to_string(&mut s);
                if !st.success() {
                    return format!("abort:{st}");
                }
                return s.trim_end().to_string();
            }
            Ok(None) => {
                if t0.elapsed().as_millis() > 4000 {
                    let _ = child.kill();
                    let _ = child.wait();
                    return "timeout".into();
                }
                std::thread::sleep(std::time::Duration::from_millis(5));
            }
            Err(e) => return format!("wait-error:{e}"),
        }
    }
}

fn recursive_probes(rep: &mut Report, agg: &mut Agg) {
    let mut excluded = vec![];
    let cases: Vec<(&str, usize)> = vec![("ser", 0), ("ser", 1), ("ser", 3), ("de", 0), ("de", 1), ("de", 3)];
    let results: Vec<(String, String)> = std::thread::scope(|s| {
        let hs: Vec<_> = cases
            .iter()
            .map(|(op, d)| {
                let (op, d) = (*op, *d);
                s.spawn(move || (run_probe(op, "hc", d), run_probe(op, "own", d)))
            })
            .collect();
        hs.into_iter().map(|h| h.join().unwrap()).collect()
    });
    for ((op, d), (a, b)) in cases.iter().zip(results) {
        agg.evaluations += 1;
        if a != b {
            agg.diff("recursive-node", "field+option", if *op == "ser" { "serialize" } else { "deserialize" }, b, a, format!("chain depth {d}"));
        } else if a == "timeout" || a.starts_with("abort") || a.starts_with("Err") {
            excluded.push(json!({"op": op, "depth": d, "both": a}));
        }
    }
    rep.set("recursive_probes_excluded_as_runtime_limitation", json!(excluded));
}

pub fn check(tier: &str) -> i32 {
    let mut rep = Report::new("C19", tier, "model_checking");
    let mut agg = Agg { found: BTreeMap::new(), evaluations: 0, distinct_texts: Default::default(), err_verdicts: 0, ok_verdicts: 0, handle_states: 0 };
    root_obs(&mut agg, "text-only", &v_text());
    root_obs(&mut agg, "attributes", &v_attrs());
    root_obs(&mut agg, "nested", &v_nested());
    root_obs(&mut agg, "optional-repeated", &v_optrep());
    root_obs(&mut agg, "restricted", &v_restricted());
    root_obs(&mut agg, "namespaced", &v_ns());
    field_text(&mut agg, "text-only", &v_text());
    field_attrs(&mut agg, "attributes", &v_attrs());
    field_nested(&mut agg, "nested", &v_nested());
    field_optrep(&mut agg, "optional-repeated", &v_optrep());
    field_restricted(&mut agg, "restricted", &v_restricted());
    field_ns(&mut agg, "namespaced", &v_ns());
    flat_text(&mut agg, "text-only", &v_text());
    flat_attrs(&mut agg, "attributes", &v_attrs());
    flat_nested(&mut agg, "nested", &v_nested());
    flat_optrep(&mut agg, "optional-repeated", &v_optrep());
    flat_restricted(&mut agg, "restricted", &v_restricted());
    flat_ns(&mut agg, "namespaced", &v_ns());
    recursive_probes(&mut rep, &mut agg);
    for (v, _n) in agg.found.values() {
        rep.violation(v.clone());
    }
    rep.set("evaluations", json!(agg.evaluations));
    rep.set("distinct_nontrivial", json!(agg.distinct_texts.len()));
    rep.set("rule", json!("complete product of the member alphabets of 6 probe types (strings {x, a<b&c>\"', é€, padded, abcd}, ints {MIN,-1,0,1,MAX}, Option absent/present, Vec of 0/1/3 items) x position {root, field, Option field, Vec field, flattened field, one wrapped value shared by three members} + at the root every handle state reachable by <= 3 operations from {clone, drop, clone_from into a wrapper that is the only holder of another value} (observed through every live handle) + recursive chains of depth 0,1,3; distinct_nontrivial = number of distinct serialized documents of the bare values (each compared with its wrapped twin in 5 observations)"));
    rep.set("exhaustive", json!(true));
    rep.set("handle_states_explored", json!(agg.handle_states));
    rep.set("restriction_verdicts", json!({"ok": agg.ok_verdicts, "err": agg.err_verdicts}));
    rep.sample(json!({"probe": "attributes", "position": "field", "bare": ser(&Attrs { id: "é€".into(), num: -1, body: "a<b&c>\"'".into() })}));
    rep.sample(json!({"probe": "recursive-node", "serialized": ser(&chain_hc(1))}));
    rep.assume("helpers_content.rs compiled unmodified by #[path]; yaserde 0.12 / xml-rs 0.8 of /repo/Cargo.lock");
    rep.assume("a self-referential probe is judged against the harness's own forwarding wrapper; it is excluded only when both fail identically (yaserde limitation)");
    rep.finish()
}

pub fn replay(v: &Violation) -> i32 {
    println!("replay C19: probe={} position={} observation={} value={}", v.case["probe"], v.case["position"], v.case["observation"], v.case["value"]);
    println!("C19 is a complete enumeration that runs in seconds; re-running it is the replay:");
    check("quick")
}

/// address of the shared value behind whatever smart pointer the wrapper derefs to (the check must
/// not depend on the pointer type the helper happens to use)
fn inner_addr<P: std::ops::Deref>(p: &P) -> *const P::Target {
    &**p as *const P::Target
}
