//! E12: the run-time helper of zeep (helpers_content.rs) compiled UNMODIFIED by path, and the
//! exhaustive enumerations that decide C06 (restriction check <=> facets) and C19 (MultiRef).

#[allow(dead_code, unused_imports, clippy::all)]
#[path = "/repo/zeep-lib/src/model/helpers_content.rs"]
mod hc;

#[allow(dead_code)]
#[path = "../../zv/src/report.rs"]
mod report;

mod c06;
mod c19;

fn main() {
    let args: Vec<String> = std::env::args().collect();
    let tier = std::env::var("VERIF_TIER").ok().or_else(|| args.get(2).cloned()).unwrap_or_else(|| "quick".into());
    let code = match args.get(1).map(|s| s.as_str()) {
        Some("C06") => c06::check(&tier),
        Some("C19") => c19::check(&tier),
        Some("C19-probe") => c19::probe_main(&args[2..]),
        Some("replay") => {
            let p = args.get(2).expect("replay <path>");
            let v: report::Violation =
                serde_json::from_str(&std::fs::read_to_string(p).expect("read replay")).expect("parse replay");
            match v.property.as_str() {
                "C06" => c06::replay(&v),
                "C19" => c19::replay(&v),
                _ => report::machinery("replay: not a zv-helpers property"),
            }
        }
        _ => {
            eprintln!("usage: zv-helpers C06|C19 [tier] | replay <path>");
            2
        }
    };
    std::process::exit(code);
}
