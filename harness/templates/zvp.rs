//! Driver prelude copied into every batch package (only std + the six documented crates).
#![allow(dead_code)]

use std::io::{Read, Write};
use std::net::{TcpListener, TcpStream};
use std::sync::atomic::{AtomicUsize, Ordering};
use std::sync::{Arc, Mutex};

pub fn jstr(s: &str) -> String {
    let mut o = String::with_capacity(s.len() + 2);
    o.push('"');
    for c in s.chars() {
        match c {
            '"' => o.push_str("\\\""),
            '\\' => o.push_str("\\\\"),
            '\n' => o.push_str("\\n"),
            '\r' => o.push_str("\\r"),
            '\t' => o.push_str("\\t"),
            c if (c as u32) < 0x20 => o.push_str(&format!("\\u{:04x}", c as u32)),
            c => o.push(c),
        }
    }
    o.push('"');
    o
}

pub struct Out;

impl Out {
    /// one observation: kind + string value
    pub fn emit(&mut self, kind: &str, value: &str) {
        let stdout = std::io::stdout();
        let mut l = stdout.lock();
        let _ = writeln!(l, "ZV {{\"k\":{},\"v\":{}}}", jstr(kind), jstr(value));
        let _ = l.flush();
    }
    /// observation with several named string values
    pub fn emit_kv(&mut self, kind: &str, kv: &[(&str, String)]) {
        let mut s = format!("ZV {{\"k\":{}", jstr(kind));
        for (k, v) in kv {
            s.push_str(&format!(",{}:{}", jstr(k), jstr(v)));
        }
        s.push('}');
        let stdout = std::io::stdout();
        let mut l = stdout.lock();
        let _ = writeln!(l, "{s}");
        let _ = l.flush();
    }
}

pub fn run_case(id: &str, f: fn(&mut Out)) {
    {
        let stdout = std::io::stdout();
        let mut l = stdout.lock();
        let _ = writeln!(l, "BEGIN {id}");
        let _ = l.flush();
    }
    std::panic::set_hook(Box::new(|_| {}));
    let r = std::panic::catch_unwind(|| {
        let mut out = Out;
        f(&mut out);
    });
    if let Err(e) = r {
        let msg = if let Some(s) = e.downcast_ref::<&str>() {
            (*s).to_string()
        } else if let Some(s) = e.downcast_ref::<String>() {
            s.clone()
        } else {
            "<panic>".to_string()
        };
        Out.emit("driver.panic", &msg);
    }
    let stdout = std::io::stdout();
    let mut l = stdout.lock();
    let _ = writeln!(l, "END {id}");
    let _ = l.flush();
}

pub fn ser<T: yaserde::YaSerialize>(v: &T) -> String {
    match yaserde::ser::to_string(v) {
        Ok(s) => format!("Ok:{s}"),
        Err(e) => format!("Err:{e}"),
    }
}

pub fn de<T: yaserde::YaDeserialize>(s: &str) -> Result<T, String> {
    yaserde::de::from_str::<T>(s)
}

pub fn assert_send<T: Send>(_: &T) {}
pub fn assert_send_sync<T: Send + Sync>() {}

pub fn runtime() -> tokio::runtime::Runtime {
    tokio::runtime::Builder::new_multi_thread().worker_threads(2).enable_all().build().expect("runtime")
}

// ------------------------------------------------------------------------------------------------
// E10: scripted loopback HTTP/1.1 listener

#[derive(Clone, Debug)]
pub enum Reply {
    /// status, reason, body
    Http(u16, String),
    CloseBeforeHeaders,
    CloseAfterHeaders,
    /// announce content-length of the full body but send only half of it
    CloseMidBody(u16, String),
}

#[derive(Clone, Debug, Default)]
pub struct Request {
    pub method: String,
    pub target: String,
    pub headers: Vec<(String, String)>,
    pub body: String,
    pub complete: bool,
}

impl Request {
    pub fn header(&self, name: &str) -> Option<String> {
        self.headers.iter().find(|(k, _)| k.eq_ignore_ascii_case(name)).map(|(_, v)| v.clone())
    }
}

pub struct Server {
    pub port: u16,
    pub accepted: Arc<AtomicUsize>,
    pub log: Arc<Mutex<Vec<Request>>>,
    stop: Arc<AtomicUsize>,
}

fn read_request(s: &mut TcpStream) -> Request {
    let mut req = Request::default();
    let _ = s.set_read_timeout(Some(std::time::Duration::from_millis(3000)));
    let mut buf: Vec<u8> = vec![];
    let mut tmp = [0u8; 4096];
    let mut header_end = None;
    loop {
        if let Some(p) = buf.windows(4).position(|w| w == b"\r\n\r\n") {
            header_end = Some(p + 4);
            break;
        }
        match s.read(&mut tmp) {
            Ok(0) | Err(_) => break,
            Ok(n) => buf.extend_from_slice(&tmp[..n]),
        }
    }
    let Some(he) = header_end else { return req };
    let head = String::from_utf8_lossy(&buf[..he]).to_string();
    let mut lines = head.split("\r\n");
    if let Some(rl) = lines.next() {
        let mut p = rl.split(' ');
        req.method = p.next().unwrap_or("").to_string();
        req.target = p.next().unwrap_or("").to_string();
    }
    for l in lines {
        if let Some((k, v)) = l.split_once(':') {
            req.headers.push((k.trim().to_string(), v.trim().to_string()));
        }
    }
    let cl: usize = req.header("content-length").and_then(|v| v.parse().ok()).unwrap_or(0);
    let mut body = buf[he..].to_vec();
    while body.len() < cl {
        match s.read(&mut tmp) {
            Ok(0) | Err(_) => break,
            Ok(n) => body.extend_from_slice(&tmp[..n]),
        }
    }
    req.complete = body.len() >= cl;
    req.body = String::from_utf8_lossy(&body).to_string();
    req
}

/// replies to the i-th connection with script[i] (the last entry repeats)
pub fn serve(script: Vec<Reply>) -> Server {
    serve_on(0, script).expect("bind")
}

/// like `serve`, on a fixed port (for clients whose URL is fixed at generation time); None when
/// the port cannot be bound
pub fn serve_on(port: u16, script: Vec<Reply>) -> Option<Server> {
    let mut listener = None;
    for _ in 0..50 {
        match TcpListener::bind(("127.0.0.1", port)) {
            Ok(l) => {
                listener = Some(l);
                break;
            }
            Err(_) => std::thread::sleep(std::time::Duration::from_millis(20)),
        }
    }
    let listener = listener?;
    Some(serve_with(listener, script))
}

fn serve_with(listener: TcpListener, script: Vec<Reply>) -> Server {
    let port = listener.local_addr().unwrap().port();
    let accepted = Arc::new(AtomicUsize::new(0));
    let log = Arc::new(Mutex::new(vec![]));
    let stop = Arc::new(AtomicUsize::new(0));
    let (a2, l2, s2) = (accepted.clone(), log.clone(), stop.clone());
    listener.set_nonblocking(true).expect("nonblocking");
    std::thread::spawn(move || {
        let mut i = 0usize;
        loop {
            if s2.load(Ordering::SeqCst) == 1 {
                break;
            }
            match listener.accept() {
                Ok((mut s, _)) => {
                    let _ = s.set_nonblocking(false);
                    a2.fetch_add(1, Ordering::SeqCst);
                    let reply = script.get(i).or(script.last()).cloned().unwrap_or(Reply::Http(200, String::new()));
                    i += 1;
                    if let Reply::CloseBeforeHeaders = reply {
                        let r = read_request(&mut s);
                        l2.lock().unwrap().push(r);
                        drop(s);
                        continue;
                    }
                    let r = read_request(&mut s);
                    l2.lock().unwrap().push(r);
                    match reply {
                        Reply::Http(status, body) => {
                            let _ = write!(s, "HTTP/1.1 {status} X\r\nContent-Type: text/xml; charset=utf-8\r\nContent-Length: {}\r\nConnection: close\r\n\r\n", body.len());
                            let _ = s.write_all(body.as_bytes());
                            let _ = s.flush();
                        }
                        Reply::CloseAfterHeaders => {
                            let _ = write!(s, "HTTP/1.1 200 OK\r\nContent-Type: text/xml\r\nContent-Length: 100\r\nConnection: close\r\n\r\n");
                            let _ = s.flush();
                        }
                        Reply::CloseMidBody(status, body) => {
                            let half = &body.as_bytes()[..body.len() / 2];
                            let _ = write!(s, "HTTP/1.1 {status} X\r\nContent-Type: text/xml\r\nContent-Length: {}\r\nConnection: close\r\n\r\n", body.len());
                            let _ = s.write_all(half);
                            let _ = s.flush();
                        }
                        Reply::CloseBeforeHeaders => {}
                    }
                    let _ = s.shutdown(std::net::Shutdown::Both);
                }
                Err(_) => std::thread::sleep(std::time::Duration::from_millis(1)),
            }
        }
    });
    Server { port, accepted, log, stop }
}

impl Server {
    pub fn url(&self, path: &str) -> String {
        format!("http://127.0.0.1:{}{}", self.port, path)
    }
    pub fn connections(&self) -> usize {
        self.accepted.load(Ordering::SeqCst)
    }
    pub fn requests(&self) -> Vec<Request> {
        self.log.lock().unwrap().clone()
    }
}

impl Drop for Server {
    fn drop(&mut self) {
        self.stop.store(1, Ordering::SeqCst);
    }
}

/// a port on which nothing listens (connection refused)
pub fn dead_port() -> u16 {
    let l = TcpListener::bind("127.0.0.1:0").expect("bind");
    l.local_addr().unwrap().port()
}
