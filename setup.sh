#!/bin/bash
# Run once after a fresh restore, offline: builds the harness (and with it /repo/zeep-lib) from
# files on disk only.
set -eu
export CARGO_NET_OFFLINE=true
mkdir -p /verif/work /verif/evidence /verif/replays
cd /verif/harness
cargo build --offline -p zv -p zv-helpers 2>&1 | tail -3
(cd /repo && CARGO_TARGET_DIR=/verif/work/target-cli cargo build --offline -p zeep 2>&1 | tail -1)
if [ -x /verif/work/target/debug/zv ]; then /verif/work/target/debug/zv setup || true; fi
echo "setup done"
