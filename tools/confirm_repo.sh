#!/bin/bash
# phase 2 only: apply to /repo, run checks, revert
M="$1"; shift
OUT="$M/confirm.txt"
say(){ echo "$@" | tee -a "$OUT"; }
cd /verif
if ! git -C /repo diff --quiet; then say "/repo is dirty, refusing"; exit 2; fi
git -C /repo apply "$M/patch.diff" || { say "PATCH DOES NOT APPLY to /repo"; exit 2; }
for ID in "$@"; do
  say "== ./check $ID quick with mutant applied to /repo"
  ./check "$ID" quick > "$M/check_$ID.log" 2>&1; say "check $ID exit=$?"
  grep -m3 -E '^VIOLATION|MACHINERY' "$M/check_$ID.log" | cut -c1-400 | tee -a "$OUT"
done
git -C /repo checkout -q -- .
say "== /repo reverted: $(git -C /repo status --porcelain | wc -l) dirty files"
