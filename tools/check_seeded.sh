#!/bin/bash
# Re-validates every kept seeded mutant against the CURRENT /repo and the CURRENT checks:
#  - the patch applies to /repo HEAD, the repository's suite stays green with it (scratch worktree),
#  - ./check <property> quick exits 1 with a VIOLATION line while it is applied to /repo,
#  - /repo is reverted afterwards.
# usage: tools/check_seeded.sh [name-prefix]
set -u
export CARGO_NET_OFFLINE=true
WT=/tmp/seeded-wt
git -C /repo worktree remove --force $WT 2>/dev/null
git -C /repo worktree add -q $WT HEAD || exit 2
if ! git -C /repo diff --quiet; then echo "/repo is dirty"; exit 2; fi
FAILS=0
for d in /verif/seeded/${1:-}*/; do
  n=$(basename "$d"); prop=$(python3 -c "import json;print(json.load(open('$d/meta.json'))['property'])")
  git -C $WT checkout -q -- . 
  if ! git -C $WT apply "$d/patch.diff" 2>/dev/null; then echo "$n: PATCH DOES NOT APPLY"; FAILS=$((FAILS+1)); continue; fi
  suite=$(cd $WT && CARGO_TARGET_DIR=/tmp/confirm-target cargo test --workspace --no-fail-fast --offline 2>&1 | grep -E '^test result: .* [1-9][0-9]* passed' | head -1)
  git -C $WT checkout -q -- .
  git -C /repo apply "$d/patch.diff"
  (cd /verif && ./check "$prop" quick > /tmp/seeded-check.log 2>&1); code=$?
  git -C /repo checkout -q -- .
  viol=$(grep -c '^VIOLATION' /tmp/seeded-check.log)
  echo "$n: suite[$suite] check $prop exit=$code violations=$viol"
  case "$suite" in *"32 passed; 0 failed"*) ;; *) echo "   SUITE NOT GREEN WITH MUTANT"; FAILS=$((FAILS+1));; esac
  if [ "$code" != "1" ] || [ "$viol" = "0" ]; then echo "   NOT DETECTED"; FAILS=$((FAILS+1)); fi
done
git -C /repo worktree remove --force $WT
echo "seeded mutants re-validated; problems: $FAILS"
exit $FAILS
