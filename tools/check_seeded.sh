#!/bin/bash
# Re-validates every kept seeded mutant against the CURRENT /repo and the CURRENT checks:
#  phase 1 (parallel, scratch worktrees under /tmp): the patch applies to /repo HEAD and the
#           repository's suite stays green with it;
#  phase 2 (serial): ./check <property> quick exits 1 with a VIOLATION line while the patch is
#           applied to /repo; /repo is reverted straight afterwards.
# usage: tools/check_seeded.sh [name-prefix]
set -u
export CARGO_NET_OFFLINE=true
if ! git -C /repo diff --quiet; then echo "/repo is dirty"; exit 2; fi
JOBS=${SEEDED_JOBS:-5}
OUT=/tmp/seeded-phase1; rm -rf $OUT; mkdir -p $OUT
ls -d /verif/seeded/${1:-}*/ | xargs -n1 basename > $OUT/list
phase1() {
  slot=$1; shift
  WT=/tmp/seeded-wt-$slot
  git -C /repo worktree remove --force $WT 2>/dev/null
  git -C /repo worktree add -q --detach $WT HEAD || exit 2
  for n in "$@"; do
    d=/verif/seeded/$n
    git -C $WT checkout -q -- .
    if ! git -C $WT apply "$d/patch.diff" 2>/dev/null; then echo "PATCH DOES NOT APPLY" > $OUT/$n.suite; continue; fi
    (cd $WT && CARGO_TARGET_DIR=/tmp/seeded-target-$slot cargo test --workspace --no-fail-fast --offline 2>&1 | grep -E '^test result: .* [1-9][0-9]* passed|^error' | head -1) > $OUT/$n.suite
  done
  git -C /repo worktree remove --force $WT
  rm -rf /tmp/seeded-target-$slot
}
for slot in $(seq 1 $JOBS); do
  phase1 $slot $(awk -v s=$slot -v j=$JOBS 'NR % j == s % j' $OUT/list) &
done
wait
FAILS=0
for n in $(cat $OUT/list); do
  d=/verif/seeded/$n
  prop=$(python3 -c "import json;print(json.load(open('$d/meta.json'))['property'])")
  checks=$(python3 -c "import json;m=json.load(open('$d/meta.json'));print(' '.join(k for k,v in m.get('check_results_with_mutant',{}).items() if 'VIOLATION' in v) or m['property'])")
  suite=$(cat $OUT/$n.suite 2>/dev/null)
  if [ "$suite" = "PATCH DOES NOT APPLY" ]; then echo "$n: PATCH DOES NOT APPLY"; FAILS=$((FAILS+1)); continue; fi
  git -C /repo apply "$d/patch.diff" || { echo "$n: PATCH DOES NOT APPLY to /repo"; FAILS=$((FAILS+1)); continue; }
  res=""; detected=0
  for c in $checks; do
    (cd /verif && ./check "$c" quick > /tmp/seeded-check.log 2>&1); code=$?
    viol=$(grep -c '^VIOLATION' /tmp/seeded-check.log)
    res="$res $c:exit=$code,violations=$viol"
    if [ "$code" = "1" ] && [ "$viol" != "0" ]; then detected=1; fi
    if [ "$c" = "$prop" ] && [ $detected = 1 ]; then break; fi
  done
  git -C /repo checkout -q -- .
  echo "$n: suite[$suite] $res"
  case "$suite" in *"32 passed; 0 failed"*) ;; *) echo "   SUITE NOT GREEN WITH MUTANT"; FAILS=$((FAILS+1));; esac
  if [ $detected = 0 ]; then echo "   NOT DETECTED"; FAILS=$((FAILS+1)); fi
done
echo "seeded mutants re-validated; problems: $FAILS"
exit $FAILS
