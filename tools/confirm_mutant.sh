#!/bin/bash
# usage: confirm_mutant.sh <worktree> <mutant-dir> <property-id> [extra check ids...]
# 1. in the scratch worktree: apply the patch, run the repository's test suite (must stay green),
#    run the demo (must fail); revert, run the demo (must pass)
# 2. against /repo: apply, run ./check <id> quick (expect exit 1 + VIOLATION), revert
set -u
WT="$1"; M="$2"; PID="$3"; shift 3
export CARGO_NET_OFFLINE=true
export CARGO_TARGET_DIR=/tmp/confirm-target
OUT="$M/confirm.txt"; : > "$OUT"
say(){ echo "$@" | tee -a "$OUT"; }
git -C "$WT" checkout -q -- . || exit 2
git -C "$WT" apply "$M/patch.diff" || { say "PATCH DOES NOT APPLY to worktree"; exit 2; }
say "== suite with mutant"
( cd "$WT" && cargo test --workspace --no-fail-fast --offline 2>&1 | grep -E '^test result|FAILED|^error' ) | tee -a "$OUT"
# demos get a private target directory: two demos often name their packages alike (gen, check, demo)
DEMO_TARGET=/tmp/confirm-demo-target-$$
if [ -x "$M/demo/run.sh" ]; then
  say "== demo with mutant (expect non-zero)"
  ( CARGO_TARGET_DIR=$DEMO_TARGET ZEEP_ROOT="$WT" "$M/demo/run.sh" >"$M/demo_mut.log" 2>&1; echo "demo exit=$?" ) | tee -a "$OUT"
fi
git -C "$WT" checkout -q -- .
if [ -x "$M/demo/run.sh" ]; then
  say "== demo without mutant (expect 0)"
  ( CARGO_TARGET_DIR=$DEMO_TARGET ZEEP_ROOT="$WT" "$M/demo/run.sh" >"$M/demo_clean.log" 2>&1; echo "demo exit=$?" ) | tee -a "$OUT"
fi
rm -rf $DEMO_TARGET
unset CARGO_TARGET_DIR
cd /verif
if ! git -C /repo diff --quiet; then say "/repo is dirty, refusing"; exit 2; fi
git -C /repo apply "$M/patch.diff" || { say "PATCH DOES NOT APPLY to /repo"; exit 2; }
for ID in "$PID" "$@"; do
  say "== ./check $ID quick with mutant applied to /repo"
  ./check "$ID" quick > "$M/check_$ID.log" 2>&1; say "check $ID exit=$?"
  grep -m3 -E '^VIOLATION|MACHINERY' "$M/check_$ID.log" | cut -c1-400 | tee -a "$OUT"
done
git -C /repo checkout -q -- .
say "== /repo reverted: $(git -C /repo status --porcelain | wc -l) dirty files"
