#!/bin/bash
# phase 1 only (scratch worktree): suite with mutant, demo with/without
WT="$1"; M="$2"
export CARGO_NET_OFFLINE=true
export CARGO_TARGET_DIR=/tmp/confirm-target-$(basename $WT)
OUT="$M/confirm.txt"; : > "$OUT"
say(){ echo "$@" | tee -a "$OUT"; }
git -C "$WT" checkout -q -- . || exit 2
git -C "$WT" apply "$M/patch.diff" || { say "PATCH DOES NOT APPLY to worktree"; exit 2; }
say "== suite with mutant"
( cd "$WT" && cargo test --workspace --no-fail-fast --offline 2>&1 | grep -E '^test result|FAILED|^error' ) | tee -a "$OUT"
DEMO_TARGET=/tmp/confirm-demo-target-$$
if [ -x "$M/demo/run.sh" ]; then
  say "== demo with mutant (expect non-zero)"
  ( CARGO_TARGET_DIR=$DEMO_TARGET ZEEP_ROOT="$WT" "$M/demo/run.sh" >"$M/demo_mut.log" 2>&1; echo "demo exit=$?" ) | tee -a "$OUT"
fi
git -C "$WT" checkout -q -- .
if [ -x "$M/demo/run.sh" ]; then
  say "== demo without mutant (expect 0)"
  ( CARGO_TARGET_DIR=$DEMO_TARGET ZEEP_ROOT="$WT" "$M/demo/run.sh" >"$M/demo_clean.log" 2>&1; echo "demo exit=$?" ) | tee -a "$OUT"
fi
rm -rf $DEMO_TARGET $CARGO_TARGET_DIR
