#!/bin/bash
# usage: repo_commit.sh <message-file>   -- commits /repo's working tree only if the pinned suite passes
set -u
cd /repo
OUT=$(cargo test --workspace --no-fail-fast --offline 2>&1 | grep -E '^test result:' )
echo "$OUT"
if echo "$OUT" | grep -q '32 passed; 0 failed' && ! echo "$OUT" | grep -qE ' [1-9][0-9]* failed'; then
  git commit -q -a -F "$1" && git log --oneline | head -1
else
  echo "SUITE NOT GREEN: not committed"; exit 1
fi
