#!/usr/bin/env python3
"""Writes /verif/MANIFEST.json from the table below and validates it against the schema."""
import json, sys

MC = "model_checking"
FE = "fault_enumeration"

# id -> (built, category, technique, level text, level note, design ref)
CHECKS = {
 "C06": (True, MC, "complete enumeration of a finite argument domain of the real helper against a reference verdict",
         "Every (carrier, value, restriction set) triple of the stated finite domain (5.07 M triples: 8 integer carriers x 9^4 numeric facet sets x boundary values, String x numeric and length/enumeration facet sets, Option/Vec lifts, float/bool) is executed on the unmodified helper source and compared with an independent i128/char-count reference verdict. Exhaustive within the stated bounds; nothing sampled.",
         "Trusted: rustc, the reference verdict function in zv-helpers/src/c06.rs. Facet bounds range over 8 boundary integers, not all of i32; values are the neighbours of every bound plus type extremes (full range for i8/u8).", "4/C06"),
 "C19": (True, MC, "differential exhaustive enumeration (bare vs wrapped) over the full product of probe member alphabets",
         "For six probe types x positions {root, field, Option field, Vec field} every value of the member-alphabet product is serialized, deserialized, restriction-checked, defaulted and cloned both bare and wrapped in the real MultiRef; any observable difference is a violation. Self-referential probes are compared with an independently written wrapper in supervised sub-processes.",
         "Trusted: yaserde 0.12 / xml-rs 0.8, the probe types. Recursive deserialization does not terminate in yaserde for either wrapper and is excluded by the differential rule (listed in the evidence).", "4/C19"),
 "C15": (True, FE, "exhaustive single-fault injection at every write-call index of the real write_xml, plus short-write patterns",
         "For every corpus document (all repository inputs the generator accepts, generated seeds covering every emitter, a no-namespace WSDL) a failure is injected once at every write-call index k in [0,N) for each error kind (Other, BrokenPipe, PermissionDenied, StorageFull, Ok(0), Interrupted) and four short-write patterns are applied; the real write_xml must return an I/O error (never Ok, never panic) resp. the byte-identical output. All 105 write!/writeln! sites of the generator are reached by the corpus (checked against a static scan on every run).",
         "Quick tier: every k with every kind for documents up to 3000 write calls, every k with kind Other for larger ones, Exchange (128858 calls) only in the thorough tier. One fault per run (no fault pairs). Write-site attribution relies on line tables of an opt-level 0 build of zeep-lib.", "4/C15"),
 "C11": (True, MC, "explicit enumeration of all import graphs (every edge subset) executed on the real reader in supervised workers",
         "All 2^(n*n) directed import graphs on n<=4 files (self-loops, mutual imports, diamonds; 66 066 graphs, 121 k runs with the sibling variants) are generated, printed to real XSD/WSDL text and run through read_xml/write_xml in worker processes with a small stack; every run must end Ok, contain each component of each reachable file exactly once and nothing of unreachable files, and be byte-identical when unreachable siblings are removed, changed, malformed or not schemas. Thorough adds all variants at n=4 and all graphs on 5 files with <=6 edges.",
         "Start file fixed to file 0 (relabelling symmetry); component multiplicity read lexically after the struct keyword; random graphs over more files are not done (sampling). A stack overflow or hang is an observation (worker abort / timeout), not a harness crash.", "4/C11"),
 "C12": (True, MC, "exhaustive exploration of environment answers (hash keys via an in-binary getrandom, directory order via an in-binary readdir64), registration orders and call histories on the real library",
         "For every accepted repository input and generated WSDLs with 2-4 operations: 256 (thorough 4096) hash seeds x all registration orders of the file set x call histories R.W, R.W.W, R.R, R.R.R, RW.RW on one input object x all directory enumeration orders through utils::read_input_file_and_xsd_files_at_path, plus genuinely fresh processes; every output must be byte-identical to the canonical one. A same-seed-twice self-test guards the harness's own determinism.",
         "Hash seeds are a finite sweep (the evidence reports how many of the k! orders of a k-key canary map they realise: all for k<=3, 22-24 of 24 for k=4). The interposers rely on std binding getrandom/readdir64 to the symbols defined in the harness executable (checked by a self-test on every run).", "4/C12"),
 "C13": (True, MC, "deviation-bounded exhaustive mutation of valid documents plus all short token documents (complete up to 3/4 tokens, well-formed ones up to 5/6), each run on the real library in supervised worker processes",
         "Every single structural mutation (delete/duplicate/move/swap element, delete/empty/alter attribute, retarget every QName attribute to every declared name, to itself, to an undeclared prefix, to a dangling name, rename to an existing name, truncate at every tag boundary, replace the root) of 19 seed inputs (27 k cases), all token documents of <=3 (thorough 4) tokens over an 11-token XSD alphabet and raw non-XML texts are run through read_xml/write_xml; the only admissible outcomes are Ok and Err within the time limit: a panic, a death by signal (stack overflow) or a timeout is a violation, recorded with the panic location. Thorough adds all mutation pairs of the generated seeds and signature-reduced mutations of the large inputs.",
         "'All UTF-8 strings' is unbounded; decided is the <=1 (thorough <=2) deviation neighbourhood of the seeds and the short token documents. Time limit 10 s + 1 s per 100 kB. One open known finding (20000-deep nesting overflows roxmltree's recursive tokenizer).", "4/C13"),
 "C17": (True, FE, "complete enumeration of the CLI configuration x failure-stage matrix, one real process run per row",
         "The real zeep binary (rebuilt from /repo/zeep) is run for the complete product of 9 input outcomes (3 succeeding; failing at: missing input, non-UTF-8 sibling, malformed XML, unresolved import, unresolved reference, unsupported binding) x 5 path spellings x explicit/default output path x pre-existing output {absent, shorter, longer with a sentinel tail} = 270 rows; success rows must exit 0 with exactly the library's bytes, failure rows must exit non-zero and leave the pre-existing output byte-for-byte unchanged.",
         "Failure stages are those reachable through file contents and paths; a failure while writing the output file itself (disk full) is not injected at the CLI level (C15 covers the writer).", "4/C17"),
 "C02": (True, MC, "breadth-first exploration of member and component productions on the real generator, syn item model compared with an independent reference API model",
         "From the two-file seed every single member production (element x 32 types x 6 occurrences x {sequence, nested+sibling, choice}; sequence occurrence x 32 types; attribute x 29 simple types x use; ref x 5 global-element kinds x 6 occurrences) and 10 component productions is applied (854 states; thorough: all admissible ordered pairs over a reduced alphabet, about 3 k states), the real generator is run and the syn-extracted item model must equal the reference API model: one public PascalCase struct per component in the module of its namespace, exactly the declared members in order, wrapper T/Option/Vec, element type = documented primitive or the struct of the named type (through aliases), legal distinct snake_case fields, nothing extra.",
         "The reference model is hand-written from the XSD rules restricted to DESIGN section 2. Depth-2 states behind a violating depth-1 prefix are pruned (counted in the evidence). One open known finding (particles after a nested sequence are dropped).", "4/C02"),
 "C08": (True, MC, "exhaustive enumeration of extension chains/fans over two files on the real generator, syn item model compared with the reference member lists",
         "All extension chains of depth 1 (files x declaration order x 5x5 own contents, with fan-out and a forward-lookup decoy) and depth 2 to 4 (both tiers since round 4; plus C09's same-name families: a base that shares its name with a global element, in every declaration order) are generated; each derived struct's member list must equal base members (recursively) then own elements then own attributes, and every element member's prefix must be bound, in the struct's own namespaces map, to the namespace of the schema that declared it.",
         "Contents beyond depth 1 are restricted to three kinds; one open known finding (types of a file imported cyclically whose base lives in the importer are dropped).", "4/C08"),
 "C01": (True, MC, "breadth-first exploration of schema/WSDL productions on the real generator; rustc (edition 2024, six documented crates only) as the oracle on every state",
         "From the XSD and WSDL seeds every single production (member kinds, every builtin, 12 names incl. keywords x 5 naming positions, multi-file import graphs with 3-4 namespaces, operation name styles, one-way operations, 1-3 header parts per direction, explicit parts, imported-namespace elements, 2-3 operations, service name styles, addresses; about 270 states; thorough: all pairs of WSDL productions and the depth-2 member pairs, about 2.6 k states) is printed, run through the real generator, parsed with syn and compiled by rustc as a #[path] module of a package whose manifest lists exactly yaserde, yaserde_derive, xml-rs, log, reqwest, tokio. Any diagnostic of level error inside the emitted file is a violation, attributed to the state.",
         "Trusted: rustc 1.95 and the six crates at the versions of /repo/Cargo.lock. Interactions needing more than two productions, and more than four files, are outside the bound. Compile results are memoised on a hash of the package sources.", "4/C01"),
 "C03": (True, MC, "breadth-first exploration of member productions x exhaustive value products, executed on the compiled generated code; roxmltree infoset compared with the reference infoset",
         "Every API-conformant state (seed + one member production, every builtin as optional element / attribute / repeated element, extension chains across namespaces) is compiled together with a generated driver that builds every value of the product of the top-level members' alternatives (Option absent/present, Vec of 0/1/3 items, numeric extremes of the carrier, floats incl. NaN, strings needing escaping, non-ASCII, padded) by complete struct literals and serializes it with yaserde; each document must parse namespace-aware and equal the expected infoset: element QNames of the declaring schema, unqualified attributes, declaration order, omission/repetition, XSD lexical forms.",
         "The value product is capped per state (24 quick / 64 thorough; the cap count is in the evidence); states that are not API-conformant are masked and counted (C02/C08 report them). The root element of a struct generated for a type is not judged.", "4/C03"),
 "C04": (True, MC, "same state/value exploration as C03; instance documents printed independently from the reference infoset in three namespace styles and deserialized by the compiled generated code",
         "For every value of every C03 state three instance documents (fresh prefixes; default namespace + prefixes; default namespace re-declared per element) are printed by the harness from the expected infoset and deserialized into the generated type; the result must equal ({:?}) the value built by literal, its re-serialization must be infoset-equal to the instance, and serialize-deserialize-serialize must be a fixpoint. Instances beyond the carrier type (2^31 for the xs:integer family, long decimals) are added. A discrepancy is excluded only when hand-rule reference structs printed from the reference model fail the identical observation (second compile round; excluded shapes and counts are in the evidence).",
         "Same caps and masking as C03. One open known finding (integer family in i32 / decimal in f64 lose schema-valid values).", "4/C04"),
 "C09": (True, MC, "complete product of reference kind x target namespace x prefix situation x declaration order x decoys, run on the real generator; resolution judged on the syn item model",
         "The local name Thing is reused as complex type and global element in both namespaces, as a local element, as an attribute, as WSDL message and part name; every carrier has a unique marker member. For the complete product {type=, base=, ref=} x {own, imported namespace} x {own prefixes, the prefix tns bound to different URIs in the two files, default namespace} x {declared before, after use} x {decoys absent, present} (72 states) and for part element= x {WSDL's, imported namespace} x parts {explicit, absent}, the referring struct must lead (through aliases) to the struct that declares the expected namespace and carries the expected marker, and inherited/ref members must be bound to the declaring namespace.",
         "Two namespaces/files; carriers identified by declared namespace + marker member.", "4/C09"),
 "C05": (True, MC, "breadth-first exploration of WSDL productions on the real generator; discovered client surface judged on the syn item model, envelopes serialized / deserialized / posted by the compiled code against a loopback listener",
         "From the WSDL seed every single production (operation name styles, input-only, 1-3 header parts per direction, explicit parts, header parts bound with parts absent, no soapAction, part named as its element, elements in an imported namespace, 2-3 operations, service name styles, address forms; thorough: all pairs and a second operation with each production, about 230 states) is generated. Item model: a service struct named after the service with exactly one public snake_case async method per operation taking the request envelope and returning the response envelope iff the operation has an output. Compiled driver: each request/response envelope is built by complete literals, serialized and compared with the expected SOAP 1.1 infoset (Body = the bound body part's element, Header = the header parts' elements under their own QNames); a response printed in other prefixes deserializes to the same value; the call arrives as one POST at the location, which equals the WSDL port address by default.",
         "Envelope, header, body and service items are discovered through the soapenv namespace, the Envelope/Header/Body renames and the method signatures, never by name. One service and one port; document/literal only.", "4/C05"),
 "C16": (True, FE, "complete enumeration of scripted server behaviours x credentials x client shapes; each row is a real call of the compiled generated client against a loopback listener",
         "4 client shapes x 6 credential settings x (9 statuses x 5 reply bodies + 4 transport faults) = 1176 exchanges. Per exchange the listener log must show exactly one connection and request (none when refused), method POST, the location's path and query as target, the serialized request envelope as body and Authorization: Basic base64(user:password) exactly when credentials are configured; the call must return the scripted response for 200/201 with the envelope (exact or in other prefixes), Ok(()) for any 2xx of a one-way operation, and an error for every other row.",
         "3xx replies are outside the claim. A 204 reply has no body by HTTP definition, so it is an error for operations with an output. Free-standing soapAction functions post to a URL fixed at generation time and are exercised for Send only (C18).", "4/C16"),
 "C18": (True, MC, "exploration of every generated client shape; rustc's auto-trait solver as per-program oracle, plus a spawned call on a multi-threaded runtime",
         "For every state of the C05 scope the driver asserts Send on the future of every client method and free-standing function, Send + Sync on every envelope type, and spawns the method call onto a multi-threaded tokio runtime against the loopback listener. The fixed helper functions are discovered in the emitted file and additionally driven with a hand-written request envelope that is Send but not Sync (appended to the emitted text because the helper module is private).",
         "The verdict per program is rustc's; a probe that does not fit a refactored helper signature yields no verdict (recorded in the evidence), never an alarm.", "4/C18"),
 "C07": (True, MC, "exploration of facet configurations x positions x placements of violating / boundary values, executed on the compiled generated client against a loopback listener",
         "For each facet configuration (every facet kind on string/int/long, pairs, simple-type derivation chains of depth 2 and 3) a WSDL is generated in which the restricted type occurs at 9 positions (direct, optional, first and second item of a repeated member, nested one and two levels, attribute, member inherited through a complex extension, header part). Every placement (all boundary-valid; each position x each violating value; pairs; a triple) is built as a complete request envelope; check_restrictions(None) must fail exactly when some placed value violates some facet of its type's derivation chain. For all-valid and single placements the client method is called: a violating request must return the restriction error with zero connections accepted by the listener, a valid one exactly one connection.",
         "One violating value alphabet per configuration; all position pairs in both tiers (since round 4). The restriction trait and method are discovered through an impl in the emitted file.", "4/C07"),
 "C10": (True, MC, "exhaustive enumeration of adversarial namespace-URI sets x ways of declaring them x import orders on the real generator; bijections read from the syn item model",
         "11 adversarial URIs (equal last segments, equal three-letter abbreviations, dots and dashes, URN, upper case, trailing slash, leading digit, 'xml', non-ASCII): every single URI, every ordered pair x 3 ways of introducing the second namespace (root xmlns, nested xmlns on the referring component, targetNamespace of an imported file only), ordered triples x both import orders, families of 2..12 URIs with one abbreviation, two 6-sets (quick 490 states, thorough about 1.9 k). In each output the relation prefix -> URI over all namespaces maps and module -> URI over all structs must be bijections, prefixes must be NCNames, no module may hold two items of one name, every component must sit in its namespace's module and every member prefix must be bound to the member's declaring namespace; a subset is compiled.",
         "URIs are drawn from a fixed adversarial alphabet; sets of more than three URIs only for the equal-abbreviation families and two 6-sets.", "4/C10"),
 "C14": (True, MC, "complete product of keywords / unusual names x naming positions and of payload strings x sinks on the real generator; syn item model and rustc as oracles",
         "All 56 strict, reserved and weak keywords of edition 2024 and 13 unusual NCNames in each of 8 naming positions (element, attribute, complex type, simple type, global element, operation, message part, service), and 15 payload strings (quote, backslash, line breaks, braces, comment delimiters, three injection payloads carrying a marker function, non-ASCII, raw-string opener) in each of 6 sinks (enumeration value, facet value, documentation, namespace URI, port address, soapAction): the output must parse, every identifier of the syntax tree must be legal, the marker must never occur as an identifier or item, an enumeration value / namespace URI must be found as a string literal that evaluates to the original text; the cases are compiled (quick: a third of the name cases and all payload cases; thorough: all) and a driver checks enumeration membership of the original text at run time.",
         "An input the generator rejects produces no output (no violation for payload strings, a violation for keyword / NCName names). Payloads in XML names are limited to what an NCName allows.", "4/C14"),
}

NOT_YET = {
}

def main():
    props = [json.loads(l) for l in open("/verif/properties.jsonl")]
    ids = [p["id"] for p in props]
    checks = []
    na = []
    for pid in ids:
        if pid in CHECKS and CHECKS[pid][0]:
            built, cat, tech, text, note, ref = CHECKS[pid]
            checks.append({
                "property_id": pid,
                "quick_cmd": f"./check {pid} quick",
                "thorough_cmd": f"./check {pid} thorough",
                "evidence_file": f"/verif/evidence/{pid}.json",
                "replay_cmd_template": "./check replay {path}",
                "engine": "zv-helpers" if pid in ("C06", "C19") else "zv",
                "level_claimed": {"category": cat, "text": text, "design_ref": f"DESIGN.md section {ref}"},
                "level_note": note,
                "technique": tech,
            })
        else:
            na.append({"property_id": pid, "reason": NOT_YET.get(pid, "check not built yet in this round; planned in DESIGN.md section 4 (bounded exhaustive exploration applies)")})
    m = {
        "version": 1,
        "setup_cmd": "./setup.sh",
        "hooks": {
            "guard": "zeep_verif",
            "enable": "no source hooks are needed: every observation point is a public API, the emitted text, a process boundary or an OS interface (DESIGN.md section 6)",
            "baseline_off_cmd": "cd /repo && cargo test --workspace --no-fail-fast --offline",
            "source_commits": [],
            "add_only": True,
        },
        "engines": [
            {"name": "zv", "path": "/verif/harness/zv", "serves_properties": [c["property_id"] for c in checks if c["engine"] == "zv"],
             "kind_free_text": "purpose-built stateless breadth-first explorer over schema sets / environment answers / call histories; runs the real zeep-lib (path dependency) in supervised worker processes, rustc and the yaserde/reqwest run time as oracles"},
            {"name": "zv-helpers", "path": "/verif/harness/zv-helpers", "serves_properties": ["C06", "C19"],
             "kind_free_text": "helpers_content.rs compiled unmodified by #[path]; complete enumeration of finite argument domains"},
        ],
        "checks": checks,
        "not_applicable": na,
        "notes": "All checks rebuild the harness against /repo's working tree first (./check). Known findings: /verif/known_findings.json. Exit 2 = machinery failure, never a verdict.",
    }
    json.dump(m, open("/verif/MANIFEST.json", "w"), indent=1)
    try:
        import jsonschema
        jsonschema.validate(m, json.load(open("/root/.vp/MANIFEST.schema.json")))
        print("MANIFEST.json valid;", len(checks), "checks,", len(na), "not_applicable")
    except ImportError:
        print("jsonschema not importable; wrote MANIFEST.json unvalidated")

if __name__ == "__main__":
    main()
