#!/usr/bin/env python3
"""Regenerates the seeded-mutant table of DESIGN.md section 8 from /verif/seeded/*/meta.json."""
import json, glob, os, re
rows = []
for d in sorted(glob.glob('/verif/seeded/*')):
    mp = os.path.join(d, 'meta.json')
    if not os.path.exists(mp):
        continue
    m = json.load(open(mp))
    name = os.path.basename(d)
    res = ", ".join(f"{k}: {'caught' if 'VIOLATION' in v else v}" for k, v in m.get('check_results_with_mutant', {}).items())
    caught = m.get('caught', '?')
    rows.append(f"| `{name}` | {m['property']} | {m['needs_to_manifest']} | {res} | {'yes' if caught == 'yes' else 'only after the check was strengthened' if caught.startswith('after') else caught} |")
n_first = sum(1 for r in rows if r.endswith('| yes |'))
def wave(r):
    n = r.split('|')[1]
    return 5 if '-w5-' in n else 4 if '-w4-' in n else 3 if '-w3-' in n else 2 if '-w2-' in n else 1
waves = {w: [r for r in rows if wave(r) == w] for w in (1, 2, 3, 4, 5)}
first = {w: sum(1 for r in waves[w] if r.endswith('| yes |')) for w in (1, 2, 3, 4, 5)}
block = f"""<!-- seeded-table-begin -->
{len(rows)} mutants written by independent sub-agents (each saw only the property text and a scratch worktree) are
kept under `/verif/seeded/<name>/` (patch.diff, the agent's demonstration, meta.json, confirm.txt).
Each was confirmed by `tools/confirm_mutant.sh`: the repository's suite stays at 32 passed with the
mutant, the demonstration fails with it and passes without it, and `./check <id> quick` is run with
the patch applied to /repo (reverted straight afterwards). They came in waves of two per
property (the fifth: one): {len(waves[1])} in the first wave ({first[1]} caught by the checks as they stood), {len(waves[2])} in a second wave written
against the strengthened checks and the repaired tree (`-w2-` in the name; {first[2]} caught as they stood),
{len(waves[3])} in a third wave whose authors were asked for interactions, stale state and order dependence
(`-w3-`; {first[3]} caught as they stood) and {len(waves[4])} in a fourth wave asked for unusual spellings of the same schema,
boundary combinations and "the second of several" (`-w4-`; {first[4]} caught as they stood), and {len(waves[5])} in a
fifth wave of one per property for eleven properties, asked for interactions of two features, order
dependence and state carried from one component to the next (`-w5-`; {first[5]} caught as they stood): {n_first} of {len(rows)} in total;
the others exposed a gap, the check was strengthened (what was added is in the `needs` column and in
section 0), and they are caught now. No mutant is left uncaught. `tools/check_seeded.sh` re-validates
all of them against the current /repo and the current checks (patch applies, suite green with it,
check exits 1); patches that later `fix:` commits had made unappliable were rebased (the original is
kept as `patch.original.diff`); mutants that a later repair neutralised, and one that needs a
construct outside the subset, are in `/verif/seeded-retired/` with the reason (README.md there).
Where the check named after the mutant's property says `exit 0`, another check reports it (column 4).

| seeded mutant | property | what it needs in order to manifest | checks run with the mutant | caught by the first version |
|---------------|----------|-------------------------------------|----------------------------|-----------------------------|
""" + "\n".join(rows) + "\n<!-- seeded-table-end -->"
p = '/verif/DESIGN.md'
s = open(p).read()
if '<!-- seeded-table-begin -->' in s:
    s = re.sub(r'<!-- seeded-table-begin -->.*?<!-- seeded-table-end -->', lambda _: block, s, flags=re.S)
else:
    a = s.index('## 8. Demonstrating detection')
    b = s.index('## 9. Threats to validity')
    s = s[:a] + """## 8. Demonstrating detection

A harness that has never failed has not been shown to work. Three kinds of evidence:

1. **Every defect of section 7.1 was first seen as a VIOLATION of the check named there** on the
   then-current tree, replayed, repaired, and the check re-run to green. Reverting any of those
   commits makes the named check fail again (the `fixed` entries of known_findings.json suppress nothing).
2. **Independently written seeded mutants** (below).
3. **False-alarm resistance**: the checks discover module, prefix, envelope and helper names instead
   of assuming them (section 3.5). `/verif/neutral/*.diff` holds six meaning-preserving refactorings of
   the generator (modules named `ns_<abbr>`; the private helper module and its functions renamed;
   envelope structs named `<Op>Request`/`<Op>Reply`; modules, envelopes and methods emitted in reverse
   order; different blank lines, comments and brace placement; `rename=` before `prefix=`).
   `tools/check_neutral.sh` applies each to /repo and runs every quick check: 0 alarms. (Two of them
   change text that the repository's own suite pins literally, which is exactly why the checks do not
   compare text.)

""" + block + "\n\n" + s[b:]
open(p, 'w').write(s)
print(len(rows), 'rows')
