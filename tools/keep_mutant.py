#!/usr/bin/env python3
"""keep_mutant.py <src mutant dir> <seeded name> <property> <caught: yes|no|after-strengthening> <needs text>"""
import sys, os, shutil, json, re
src, name, prop, caught, needs = sys.argv[1:6]
dst = f"/verif/seeded/{name}"
os.makedirs(dst, exist_ok=True)
shutil.copy(f"{src}/patch.diff", f"{dst}/patch.diff")
for f in ("notes.md", "confirm.txt", "demo_output.txt"):
    if os.path.exists(f"{src}/{f}"):
        shutil.copy(f"{src}/{f}", f"{dst}/{f}")
if os.path.isdir(f"{src}/demo"):
    if os.path.isdir(f"{dst}/demo"):
        shutil.rmtree(f"{dst}/demo")
    shutil.copytree(f"{src}/demo", f"{dst}/demo", ignore=shutil.ignore_patterns("target", "*.log", "Cargo.lock"))
confirm = open(f"{src}/confirm.txt").read() if os.path.exists(f"{src}/confirm.txt") else ""
checks = re.findall(r"check (C\d+) exit=(\d+)", confirm)
meta = {
    "property": prop,
    "needs_to_manifest": needs,
    "origin": "written by an independent sub-agent that saw only the property text and a scratch worktree",
    "confirmed": {
        "suite_with_mutant": "32 passed, 0 failed" if "32 passed; 0 failed" in confirm else "see confirm.txt",
        "demo_with_mutant_exit": (re.findall(r"demo with mutant.*?\ndemo exit=(\d+)", confirm, re.S) or ["n/a"])[0],
        "demo_without_mutant_exit": (re.findall(r"demo without mutant.*?\ndemo exit=(\d+)", confirm, re.S) or ["n/a"])[0],
    },
    "ran": ["tools/confirm_mutant.sh (scratch worktree: git apply, cargo test --workspace, demo/run.sh both ways; then git -C /repo apply, ./check <id> quick, git -C /repo checkout -- .)"],
    "check_results_with_mutant": {c: ("VIOLATION (exit 1)" if e == "1" else f"exit {e}") for c, e in checks},
    "caught": caught,
}
json.dump(meta, open(f"{dst}/meta.json", "w"), indent=1)
print("kept", dst, meta["check_results_with_mutant"])
