#!/usr/bin/env python3
"""Prints the prompt handed to a mutant-writing sub-agent: the property text and the scratch worktree only."""
import json, sys
pid = sys.argv[1]
n = sys.argv[2] if len(sys.argv) > 2 else "2"
wt = f"/tmp/mut-{pid}"
p = [json.loads(l) for l in open("/verif/properties.jsonl") if json.loads(l)["id"] == pid][0]
print(f"""You are helping test a verification effort for the open-source Rust project mibes404/zeep (a CLI + library that reads XSD/WSDL files and generates yaserde-annotated Rust structs plus async SOAP client code). You have your own scratch git worktree of the repository at {wt} (a detached checkout; work ONLY there and in a new directory {wt}-out for your deliverables; do not touch /repo or /verif, and do not read anything under /verif).

The sandbox has no network. Build and test offline, with a private target directory so you do not collide with others:
  cd {wt} && CARGO_TARGET_DIR={wt}-target cargo test --workspace --no-fail-fast --offline
(32 tests pass on the unmodified tree.) Generated code depends on yaserde 0.12, yaserde_derive, xml-rs, log, reqwest (default-features = false, features rustls-tls), tokio (full); all are in the offline cargo cache. The library's public API is zeep_lib::reader::{{Files, FilesToRead, XmlReader, WriteXml}} and zeep_lib::utils; the run-time helper that is copied verbatim into every generated file is zeep-lib/src/model/helpers_content.rs.

Here is a semantic property that the project is supposed to satisfy:

  id: {p['id']}
  title: {p['title']}
  statement: {p['statement']}
  quantifier: {p['quantifier']['text']}

YOUR TASK: produce {n} DIFFERENT realistic changes (mutants) to the zeep source in the worktree (zeep-lib/src/** or zeep/src/**; not tests, not test-data, not examples), each of which
  (a) still compiles and still passes the full existing test suite (run it, with the command above, and confirm 32 passed / 0 failed),
  (b) BREAKS the property above, and
  (c) needs something SPECIFIC to manifest: a particular unusual input, a multi-step sequence of calls, a fault at a particular point, a boundary value, a particular combination of schema features, or two cooperating sites that each look fine alone. Do NOT produce changes that ordinary use would expose at once (e.g. breaking every output). Think of plausible bugs a developer could introduce in a refactoring or an "optimisation": an off-by-one at one boundary only, a special case for one carrier type, a cache or flag that goes stale, handling that is dropped for one position only, etc. Each mutant should be a small diff (a few lines).
The change must break behaviour that holds on the unmodified worktree: first check that the behaviour you target is actually correct before your change (the project has other bugs; do not rely on those).

For EACH mutant i (1..{n}) deliver in {wt}-out/m<i>/:
  - patch.diff : `git diff` of the change against the worktree HEAD (apply-able with `git apply` at the repository root),
  - a demonstration that FAILS with the change and PASSES without it: either a Rust test file plus exact instructions, or a small standalone cargo project under {wt}-out/m<i>/demo/ (offline; path-depend on the worktree's zeep-lib if needed, copy {wt}/Cargo.lock next to its Cargo.toml first so that dependency resolution works offline) with a run.sh that exits 0 when the property holds and non-zero when it is broken. Run it both ways yourself and record the outputs in demo_output.txt,
  - notes.md : which part of the property it breaks, what exactly is needed for it to manifest, and the test-suite result with the change applied.
Leave the worktree itself CLEAN at the end (git -C {wt} checkout -- . ; no untracked files in it), and delete {wt}-target and any demo target directories when you are done to save disk (keep only sources, patches and recorded outputs).
In your final message, summarise each mutant in 3-4 lines (file/function changed, what is needed to trigger it, how the demo shows it).""")
