#!/bin/bash
# Applies each meaning-preserving refactoring of /verif/neutral to /repo and runs every quick check:
# all must exit 0 (no alarm on code where the properties hold). /repo is reverted after each.
set -u
cd /verif
if ! git -C /repo diff --quiet; then echo "/repo is dirty"; exit 2; fi
BAD=0
for p in neutral/*.diff; do
  n=$(basename $p .diff)
  git -C /repo apply /verif/$p || { echo "$n: does not apply"; BAD=$((BAD+1)); continue; }
  for c in ${CHECKS:-C01 C02 C03 C04 C05 C07 C08 C09 C10 C12 C13 C14 C15 C16 C17 C18 C19 C06}; do
    ./check $c quick > /tmp/neutral.log 2>&1; code=$?
    if [ $code -ne 0 ]; then echo "$n: $c exit=$code"; grep -m2 -E '^VIOLATION|MACHINERY' /tmp/neutral.log | cut -c1-300; BAD=$((BAD+1)); fi
  done
  git -C /repo checkout -q -- .
  echo "$n: done"
done
echo "neutral refactorings: $BAD alarm(s)"
exit $BAD
